"""Stand-in for python_on_whales (not installed here, no docker in the sandbox).

Only the surface func_adl_xAOD.common.local_dataset touches:
  python_on_whales.docker.run(image, command, volumes=, remove=, stream=)
  python_on_whales.exceptions.DockerException

`docker.run` is driven by the simulator: the harness installs a *container plan* with
`docker.install(handler)`; every call is recorded in `docker.calls`.
The stream=True contract (iterator of (stream_name, bytes); DockerException raised by the
iterator when the container exits non-zero) follows the python_on_whales documentation.
"""
from . import exceptions  # noqa
from .exceptions import DockerException  # noqa


class _Docker:
    def __init__(self):
        self.calls = []
        self._handler = None

    def install(self, handler):
        self._handler = handler
        self.calls = []

    def run(self, image, command=(), **kwargs):
        call = {"image": image, "command": list(command), "kwargs": kwargs}
        self.calls.append(call)
        if self._handler is None:
            raise RuntimeError("stand-in python_on_whales: no container plan installed")
        return self._handler(call)


docker = _Docker()
