"""Harness self-checks that need no /repo code (run by setup.sh)."""
import sys

from sim.core import isolate
from sim.core.shrink import ddmin_list
from sim.core.util import fingerprint, run_rng


def _f(x):
    return {"x": x * 2}


def main():
    # one seed, one sequence
    a = [run_rng("e", 1, 2).random() for _ in range(3)]
    b = [run_rng("e", 1, 2).random() for _ in range(3)]
    assert a == b and a != [run_rng("e", 1, 3).random() for _ in range(3)]
    assert fingerprint({"b": 1, "a": 2}) == fingerprint({"a": 2, "b": 1})
    # isolation and ordering of results
    res, done = isolate.map_isolated(_f, [(i,) for i in range(20)], jobs=4, timeout=20)
    assert [r["x"] for r in res] == [2 * i for i in range(20)] and all(done)
    # nested isolation (grandchildren) must not hang
    r = isolate.call_isolated(lambda: isolate.call_isolated(_f, (21,), timeout=10), (), timeout=20)
    assert r == {"x": 42}
    # a timeout is a harness error, never a pass
    try:
        isolate.call_isolated(lambda: __import__("time").sleep(30), (), timeout=1.0)
        raise AssertionError("timeout not detected")
    except isolate.HarnessError:
        pass
    # ddmin finds a 2-element core
    core = ddmin_list(list(range(30)), lambda xs: 7 in xs and 19 in xs)
    assert sorted(core) == [7, 19], core
    print("selfcheck ok")
    return 0


if __name__ == "__main__":
    sys.exit(main())
