"""Engine `loc`: LocalDataset against a simulated docker (C17).

Real: common/local_dataset.py and the three backend datasets, the real executors/templates,
func_adl's ObjectStream.value_async. Stub: the vendored stand-in python_on_whales whose
docker.run plays this run's container plan (or, in chained mode, really runs the rendered
runner.sh under the `run` engine's stub tools). Seams patched in the harness process:
tempfile.mkdtemp (deterministic names + ledger), shutil.copy and builtins.open (I/O faults).
"""
import copy
import os
import shutil
import sys
import tempfile

from ..core import isolate
from ..core.shrink import ddmin_list
from ..core.util import fingerprint, run_rng, weighted

NAME = "loc"
ISOLATE = True
CASE_TIMEOUT = 120.0
CHUNK = 10

PROPERTIES = {
    "C17": {
        "level": "fault_enumeration",
        "wall_cap": {"quick": 200.0, "thorough": 3000.0},
        "rule": "part 1 (systematic): backend x file-list class x image source x output-directory kind x container outcome "
                "(clean with result; clean without result; DockerException before every chunk and at exit, with and without the "
                "result file present) x process start state {fresh interpreter, warmed}; part 2 (seeded): 1-4 executions per "
                "process with stream chunks / leftover files / I/O faults / concurrent starts drawn from the run PRNG, about "
                "20% of them chained into the real runner.sh under stub tools. A reference function (dataset, query metadata, "
                "plan) -> (expected docker call, outcome class) is checked per execution. Non-trivial = a container was started "
                "or a fault fired; distinct = (backend, file class, image source, outdir kind, plan shape, fault, start state).",
        "real_vs_stub": {
            "real": ["func_adl_xAOD.common.local_dataset.LocalDataset and xAODDataset / CMSRun1AODDataset / CMSRun2miniAODDataset",
                     "executors + templates generating the package", "func_adl ObjectStream.value_async, asyncio event loop",
                     "tempfile.TemporaryDirectory (over a deterministic mkdtemp), real file system under scratch",
                     "chained mode: the generated runner.sh executed by bash under the run engine's stub tools"],
            "stub": ["python_on_whales (vendored stand-in: docker.run plays the container plan; DockerException)",
                     "tempfile.mkdtemp wrapper (names + ledger)", "shutil.copy / builtins.open wrappers when an I/O fault is armed"],
        },
        "assumptions": [
            "python_on_whales' docker.run(stream=True) yields (stream name, bytes) tuples and raises DockerException from the "
            "iterator when the container exits non-zero (its documented contract; the real package is not installed)",
            "a fresh interpreter is modelled by tempfile.tempdir = None in a forked child (that is the state of every new interpreter)",
            "the container runs as a user other than the caller (as the experiments' images do): it can write its result only if the "
            "directory bound at /results is writable and searchable for others",
        ],
    },
}

BACKENDS = ["atlas", "cms_aod", "cms_miniaod"]
DEFAULT_IMAGE = {"atlas": "atlas/analysisbase:21.2.197", "cms_aod": "cmsopendata/cmssw_5_3_32:conddb_20210705",
                 "cms_miniaod": "cmsopendata/cmssw_7_6_7-slc6_amd64_gcc493:latest"}
CACHE_VOLUMES = {"atlas": [["func_adl_atlas_xaod_calibration_cache", "/xaod_calibration_cache"]], "cms_aod": [], "cms_miniaod": []}
QUERY = {
    "atlas": [["SelectMany", 'lambda e: e.Jets("AntiKt4EMTopoJets")'], ["Select", "lambda j: j.pt()"]],
    "cms_aod": [["SelectMany", 'lambda e: e.Muons("muons")'], ["Select", "lambda m: m.pt()"]],
    "cms_miniaod": [["SelectMany", 'lambda e: e.Muons("slimmedMuons")'], ["Select", "lambda m: m.pt()"]],
}
RUN_BACKEND = {"atlas": "atlas", "cms_aod": "cms_r5", "cms_miniaod": "cms_r7"}
_scratch = None

FILE_CLASSES = ["one", "one_str", "one_path", "several", "dup", "two_dirs", "missing", "empty", "spacey",
                "symlink_one", "symlinks_two_targets", "real_plus_link_elsewhere", "relative",
                "nested_dir", "nested_dir_first", "prefix_dirs", "same_name_two_dirs"]
# files that do not share one directory - in any of the ways two directories can be related
TWO_DIRS = ("two_dirs", "real_plus_link_elsewhere", "nested_dir", "nested_dir_first", "prefix_dirs", "same_name_two_dirs")
OUTDIR_KINDS = ["given", "none", "missing_dir"]
IMAGE_SOURCES = ["dataset_default", "dataset_custom", "md_one", "md_two", "md_first_in_chain", "md_aba", "md_same_twice", "md_registry_port"]
CHUNK_POOL = [["stdout", "building\n"], ["stderr", "warning: something\n"], ["stdout", ""], ["stdout", "line1\nline2\nline3\n"],
              ["stderr", "café ✓\n"], ["stdout", "x" * 300 + "\n"]]
BIG = ["stdout", "BIG:450000"]  # a chatty job: 450 kB in one chunk
HUGE = ["stderr", "BIG:3000000"]  # and a very chatty one: 3 MB in one chunk (the total volume is a knob, thresholds are unknown)


def prepare(prop, tier, seed):
    global _scratch
    import logging
    logging.disable(logging.CRITICAL)
    stand_in = os.path.join(os.path.dirname(os.path.dirname(os.path.abspath(__file__))), "stand_in")
    if stand_in not in sys.path:
        sys.path.insert(0, stand_in)
    import func_adl_xAOD.atlas.xaod  # noqa
    import func_adl_xAOD.cms.aod  # noqa
    import func_adl_xAOD.cms.miniaod  # noqa
    import func_adl_xAOD.common.local_dataset  # noqa
    from ..run import engine as run_engine  # noqa
    _scratch = os.path.realpath(tempfile.mkdtemp(prefix="verif-loc-"))
    import atexit
    atexit.register(lambda p=_scratch, pid=os.getpid(): os.getpid() == pid and shutil.rmtree(p, ignore_errors=True))


# ------------------------------------------------------------------ plans

def plan_shapes():
    """The systematic container outcomes for a 3-chunk stream."""
    chunks = [CHUNK_POOL[0], CHUNK_POOL[1], CHUNK_POOL[3]]
    shapes = [{"chunks": chunks, "result_at": 1, "fail_at": None, "extra": []},
              {"chunks": [], "result_at": 0, "fail_at": None, "extra": []},
              {"chunks": chunks, "result_at": None, "fail_at": None, "extra": []}]
    for k in range(len(chunks) + 1):
        shapes.append({"chunks": chunks, "result_at": None, "fail_at": k, "extra": []})
        shapes.append({"chunks": chunks, "result_at": 0, "fail_at": k, "extra": []})
    shapes.append({"chunks": chunks, "result_at": 1, "fail_at": 3, "extra": [["job.log", "text", "some log\n"]]})
    # the stream dies of something that is not a DockerException: the user interrupts, the daemon connection drops
    shapes.append({"chunks": chunks, "result_at": 0, "fail_at": 2, "fail_kind": "keyboard", "extra": []})
    shapes.append({"chunks": chunks, "result_at": None, "fail_at": 1, "fail_kind": "oserror", "extra": []})
    big = [BIG, BIG, CHUNK_POOL[0], BIG, BIG]
    shapes.append({"chunks": big, "result_at": 1, "fail_at": None, "extra": []})
    shapes.append({"chunks": big, "result_at": 1, "fail_at": 5, "extra": []})
    shapes.append({"chunks": big, "result_at": None, "fail_at": 4, "extra": []})
    huge = [HUGE, BIG, HUGE, CHUNK_POOL[0], HUGE, HUGE]   # 12.5 MB
    shapes.append({"chunks": huge, "result_at": 6, "fail_at": None, "extra": []})
    shapes.append({"chunks": huge, "result_at": 1, "fail_at": 6, "extra": []})
    return shapes


def _sweep_space():
    items = []
    shapes = plan_shapes()
    for b in BACKENDS:
        for start in ("fresh", "warmed"):
            for si in range(len(shapes)):
                items.append((b, start, "one", "dataset_default", "given", si))
            for fc in FILE_CLASSES:
                items.append((b, start, fc, "dataset_default", "given", 0))
            for im in IMAGE_SOURCES:
                items.append((b, start, "several", im, "given", 0))
            for ok in OUTDIR_KINDS:
                items.append((b, start, "one", "dataset_default", ok, 0))
                items.append((b, start, "one", "dataset_default", ok, 5))
            for seq in REUSE_SEQS:
                items.append((b, start, "several", "reuse:" + "/".join(seq), "given", 0))
            if start == "warmed":
                for ti in range(3, len(TITLES)):
                    items.append((b, start, "one", "dataset_default", "given", 0, ti))
    return items


# one dataset object executing several queries in turn (image source of each query)
REUSE_SEQS = [["md_one", "dataset_custom"], ["dataset_custom", "md_one", "dataset_custom"], ["md_two", "md_one", "dataset_default"],
              ["dataset_default", "dataset_default"]]


N_SEEDED = {"quick": 2500, "thorough": 80000}


def plan(prop, tier, seed):
    return len(_sweep_space()) + N_SEEDED[tier]


TITLES = [None, None, None, "my query", "ttbar/nominal", "x" * 300, "../escape", "naïve ✓ title"]


def _op(backend, files, image, outdir, plan_, io_fault=None, md_extra=0, chained=None, reuse=None, title=None):
    """reuse = index (in execution order) of an earlier execution whose *dataset object* runs this query too.
    title = the free-text title func_adl hands to execute_result_async (value_async(title=...))."""
    return {"op": "execute", "backend": backend, "files": files, "image": image, "outdir": outdir, "plan": plan_,
            "io_fault": io_fault, "md_extra": md_extra, "chained": chained, "reuse": reuse, "title": title}


def make_case(prop, tier, seed, i):
    sweep = _sweep_space()
    if i < len(sweep):
        ti = None
        if len(sweep[i]) == 7:
            b, start, fc, im, ok, si, ti = sweep[i]
        else:
            b, start, fc, im, ok, si = sweep[i]
        if ti is not None:
            return {"engine": NAME, "prop": prop, "seed": seed, "run": i, "kind": "sweep", "start_state": start,
                    "groups": [[_op(b, fc, im, ok, plan_shapes()[si], title=TITLES[ti])]]}
        if im.startswith("reuse:"):
            seq = im[6:].split("/")
            first_im = seq[0] if seq[0].startswith("md_") else seq[0]
            groups = [[_op(b, fc, seq[0], ok, plan_shapes()[si])]]
            for s_im in seq[1:]:
                groups.append([_op(b, fc, s_im, ok, plan_shapes()[si], reuse=0)])
            return {"engine": NAME, "prop": prop, "seed": seed, "run": i, "kind": "sweep", "start_state": start, "groups": groups}
        return {"engine": NAME, "prop": prop, "seed": seed, "run": i, "kind": "sweep", "start_state": start,
                "groups": [[_op(b, fc, im, ok, plan_shapes()[si])]]}
    rng = run_rng(NAME, seed, i)
    start = rng.choice(["fresh", "warmed"])
    p_fail = rng.choice([0.0, 0.2, 0.5])
    p_io = rng.choice([0.0, 0.0, 0.15])
    p_chain = rng.choice([0.0, 0.0, 0.3, 0.6])
    p_bin = rng.choice([0.0, 0.0, 0.1])
    p_big = rng.choice([0.0, 0.0, 0.0, 0.3])
    n = weighted(rng, [(1, 4), (2, 3), (3, 2), (4, 1)])
    ops = []
    for _ in range(n):
        b = rng.choice(BACKENDS)
        fc = weighted(rng, [("one", 4), ("several", 4), ("one_str", 1), ("one_path", 1), ("dup", 1), ("two_dirs", 1),
                            ("missing", 1), ("empty", 1), ("spacey", 1), ("symlink_one", 1), ("symlinks_two_targets", 1),
                            ("real_plus_link_elsewhere", 1), ("relative", 1), ("nested_dir", 1), ("nested_dir_first", 1),
                            ("prefix_dirs", 1), ("same_name_two_dirs", 1)])
        im = rng.choice(IMAGE_SOURCES)
        ok = weighted(rng, [("given", 6), ("none", 2), ("missing_dir", 1)])
        nch = rng.randrange(0, 9)
        chunks = [rng.choice(CHUNK_POOL) for _ in range(nch)]
        if rng.random() < p_bin and chunks:
            chunks[rng.randrange(len(chunks))] = ["stdout", "\\xff\\xfe<non-utf8>"]
        if rng.random() < p_big:
            for _ in range(rng.choice([1, 3, 4])):
                chunks.insert(rng.randrange(len(chunks) + 1), BIG if rng.random() < 0.6 else HUGE)
            nch = len(chunks)
        pl = {"chunks": chunks, "result_at": rng.randrange(0, nch + 1), "fail_at": None, "extra": []}
        r = rng.random()
        if r < p_fail:
            pl["fail_at"] = rng.randrange(0, nch + 1)
            pl["fail_kind"] = weighted(rng, [("docker", 6), ("keyboard", 1), ("oserror", 1)])
            if rng.random() < 0.5:
                pl["result_at"] = None
        elif r < p_fail + 0.1:
            pl["result_at"] = None
        if rng.random() < 0.25:
            pl["extra"].append(["job.log", "text", "log line\nsecond\n"])
        if rng.random() < p_bin:
            pl["extra"].append(["core.bin", "binary", ""])
        io_fault = None
        if rng.random() < p_io:
            io_fault = rng.choice(["copy_enospc", "copy_torn", "filelist_open", "package_write"])
        chained = None
        if rng.random() < p_chain:
            chained = {"faults": []}
            if rng.random() < 0.4:
                chained["faults"].append({"pick": rng.random(), "mode": rng.choice(["fail-before", "fail-after-partial"]),
                                          "rc": rng.choice([1, 2, 139])})
        reuse = None
        if ops and rng.random() < 0.3:
            reuse = rng.randrange(len(ops))
            while ops[reuse]["reuse"] is not None:
                reuse = ops[reuse]["reuse"]
            b, fc, ok = ops[reuse]["backend"], ops[reuse]["files"], ops[reuse]["outdir"]
        ops.append(_op(b, fc, im, ok, pl, io_fault, md_extra=rng.choice([0, 0, 1, 2]), chained=chained, reuse=reuse,
                       title=rng.choice(TITLES)))
    # group: mostly one at a time; sometimes several executions started as tasks of one loop
    groups = []
    j = 0
    while j < len(ops):
        k = 1 if rng.random() < 0.75 else rng.choice([2, 3])
        if any(o["reuse"] is not None for o in ops[j:j + k]):
            k = 1  # a reused dataset object runs its queries one after the other
        groups.append(ops[j:j + k])
        j += k
    return {"engine": NAME, "prop": prop, "seed": seed, "run": i, "kind": "seeded", "start_state": start, "groups": groups}


# ------------------------------------------------------------------ execution (inside the forked child)

class Ledger:
    def __init__(self, base):
        self.base = base
        self.dirs = []
        self._orig = tempfile.mkdtemp

    def mkdtemp(self, suffix=None, prefix=None, dir=None):
        # deterministic names, but prefix / suffix / dir are honoured as the real mkdtemp honours them
        name = f"{prefix if prefix is not None else 'tmp'}dir-{len(self.dirs)}{suffix or ''}"
        d = os.path.join(dir if dir is not None else self.base, name)
        os.mkdir(d, 0o700)
        self.dirs.append(d)
        return d

    def left(self):
        return [d for d in self.dirs if os.path.exists(d)]


def _materialise_files(base, tag, fc):
    d1 = os.path.join(base, f"data-{tag}-1")
    d2 = os.path.join(base, f"data-{tag}-2")
    d3 = os.path.join(base, f"data {tag} spacey")
    for d in (d1, d2, d3):
        os.makedirs(d, exist_ok=True)

    def mk(d, n):
        p = os.path.join(d, n)
        with open(p, "w") as f:
            f.write("root file " + n)
        return p

    from pathlib import Path
    if fc == "one":
        fs = [mk(d1, "a.root")]
        return [Path(f) for f in fs], fs
    if fc == "one_str":
        f = mk(d1, "a.root")
        return f, [f]
    if fc == "one_path":
        f = mk(d1, "a.root")
        return Path(f), [f]
    if fc == "several":
        fs = [mk(d1, "b.root"), mk(d1, "a.root"), mk(d1, "c.root")]
        return [Path(fs[0]), fs[1], Path(fs[2])], fs
    if fc == "dup":
        f = mk(d1, "a.root")
        return [f, f], [f, f]
    if fc == "two_dirs":
        fs = [mk(d1, "a.root"), mk(d2, "b.root")]
        return fs, fs
    if fc in ("nested_dir", "nested_dir_first"):
        # the second directory is a sub-directory of the first (at depth two), or the other way round
        sub = os.path.join(d1, "run2", "part1")
        os.makedirs(sub, exist_ok=True)
        fs = [mk(d1, "a.root"), mk(sub, "b.root")]
        if fc == "nested_dir_first":
            fs.reverse()
        return fs, fs
    if fc == "prefix_dirs":
        # two sibling directories, the name of one a prefix of the other's
        dp = d1 + "2"
        os.makedirs(dp, exist_ok=True)
        fs = [mk(d1, "a.root"), mk(dp, "b.root")]
        return fs, fs
    if fc == "same_name_two_dirs":
        fs = [mk(d1, "a.root"), mk(d2, "a.root")]
        return fs, fs
    if fc == "missing":
        fs = [mk(d1, "a.root"), os.path.join(d1, "not_there.root")]
        return fs, fs
    if fc == "empty":
        return [], []
    if fc == "spacey":
        fs = [mk(d3, "file one.root"), mk(d3, "two.root")]
        return fs, fs
    if fc == "symlink_one":
        # the input is a symbolic link whose target lives in another directory: the link's own directory is the data directory
        t = mk(d2, "target_a.root")
        ln = os.path.join(d1, "link_a.root")
        if not os.path.lexists(ln):
            os.symlink(t, ln)
        return [ln], [ln]
    if fc == "symlinks_two_targets":
        t1, t2 = mk(d2, "target_a.root"), mk(d3, "target_b.root")
        fs = []
        for n, t in (("link_a.root", t1), ("link_b.root", t2)):
            ln = os.path.join(d1, n)
            if not os.path.lexists(ln):
                os.symlink(t, ln)
            fs.append(ln)
        return fs, fs
    if fc == "real_plus_link_elsewhere":
        t = mk(d1, "a.root")
        ln = os.path.join(d2, "link_to_a.root")
        if not os.path.lexists(ln):
            os.symlink(t, ln)
        return [t, ln], [t, ln]
    if fc == "relative":
        f = mk(d1, "rel.root")
        r = os.path.relpath(f, os.getcwd())
        return [r], [r]
    raise ValueError(fc)


def _dataset_class(backend):
    if backend == "atlas":
        from func_adl_xAOD.atlas.xaod import xAODDataset
        return xAODDataset
    if backend == "cms_aod":
        from func_adl_xAOD.cms.aod import CMSRun1AODDataset
        return CMSRun1AODDataset
    from func_adl_xAOD.cms.miniaod import CMSRun2miniAODDataset
    return CMSRun2miniAODDataset


def _chain_has(exc, cls):
    seen = set()
    stack = [exc]
    while stack:
        e = stack.pop()
        if e is None or id(e) in seen:
            continue
        seen.add(id(e))
        if isinstance(e, cls):
            return True
        stack.extend([e.__cause__, e.__context__])
    return False


def _chunk_bytes(text):
    if text.startswith("BIG:"):
        return (b"y" * 99 + b"\n") * (int(text[4:]) // 100)
    if text.startswith("\\xff\\xfe"):
        return b"\xff\xfe" + text[8:].encode()
    return text.encode("utf-8")


def _child(case):
    import asyncio
    import builtins
    import python_on_whales
    from python_on_whales import docker
    from python_on_whales.exceptions import DockerException
    from ..run import engine as run_engine

    base = os.path.join(_scratch, f"case-{os.getpid()}")
    os.makedirs(base)
    tmpbase = os.path.join(base, "TMP")
    os.makedirs(tmpbase)
    os.environ["TMPDIR"] = tmpbase
    if case["start_state"] == "fresh":
        tempfile.tempdir = None  # the state of every new interpreter
    else:
        tempfile.tempdir = None
        tempfile.gettempdir()
    ledger = Ledger(base)
    tempfile.mkdtemp = ledger.mkdtemp
    log, viols, stats, states, nontrivial = [], [], {}, [], []

    def bump(k, n=1):
        stats[k] = stats.get(k, 0) + n

    ops_by_image = {}
    records = {}
    real_copy = shutil.copy
    real_open = builtins.open
    armed = {"copy": None, "open": None}

    def copy_(src, dst, *a, **kw):
        f = armed["copy"]
        if f is not None and str(src).endswith("ANALYSIS.root"):
            armed["copy"] = None
            bump("fault:" + f)
            if f == "copy_torn":
                with real_open(dst, "wb") as fh:
                    fh.write(b"tok")
            raise OSError(28, "No space left on device", str(dst))
        return real_copy(src, dst, *a, **kw)

    def open_(file, mode="r", *a, **kw):
        f = armed["open"]
        if f is not None and isinstance(file, (str, os.PathLike)) and any(c in mode for c in "wa"):
            name = os.path.basename(os.fspath(file))
            if (f == "filelist_open" and name == "filelist.txt") or (f == "package_write" and name in ("runner.sh",)):
                armed["open"] = None
                bump("fault:" + f)
                raise OSError(28, "No space left on device", os.fspath(file))
        return real_open(file, mode, *a, **kw)

    shutil.copy = copy_
    builtins.open = open_
    import io as _io
    _io.open = open_

    def handler(call):
        image = call["image"]
        rec = ops_by_image.get(image)
        if rec is None:
            # not an image any execution of this case could legitimately ask for: record it on the
            # only pending execution if that is unambiguous, else refuse
            pending = [r for r in ops_by_image.values() if not r["calls"]]
            uniq = {id(r): r for r in pending}
            if len(uniq) != 1:
                raise RuntimeError(f"stand-in docker: unexpected image {image}")
            rec = list(uniq.values())[0]
        op = rec["op"]
        rec["calls"].append(call)
        vols = call["kwargs"].get("volumes") or []
        host_scripts = [str(v[0]) for v in vols if len(v) > 1 and v[1] == "/scripts"]
        host_results = [str(v[0]) for v in vols if len(v) > 1 and v[1] == "/results"]
        rec["filelist_at_start"] = None
        # like the daemon: a mount point given twice or a bind source that does not exist is refused
        # before anything runs (exit status 125)
        targets = [str(v[1]).rstrip("/") for v in vols if len(v) > 1]
        dup = sorted({t for t in targets if targets.count(t) > 1})
        gone = [str(v[0]) for v in vols if len(v) > 1 and os.path.isabs(str(v[0])) and not os.path.exists(str(v[0]))]
        if dup or gone:
            rec["refused"] = (f"Duplicate mount point: {dup[0]}" if dup else
                              f"bind source path does not exist: {os.path.basename(gone[0])}")
            bump("reach:docker_refused_mounts")

            def gen_refused():
                raise DockerException(["docker", "run", image], 125)
                yield  # pragma: no cover

            return gen_refused()
        # the experiments' images do not run as the caller's user: the container can create its result under /results only
        # if the bind source lets *others* write (and search) it; otherwise the job dies with "Permission denied"
        if host_results and os.path.isdir(host_results[0]) and (os.stat(host_results[0]).st_mode & 0o003) != 0o003:
            rec["refused"] = (f"the container's user cannot write the directory mounted at /results "
                              f"(mode {oct(os.stat(host_results[0]).st_mode & 0o777)}): Permission denied")
            bump("reach:results_mount_not_writable_for_container_user")

            def gen_denied():
                yield ("stderr", b"cp: cannot create regular file '/results/ANALYSIS.root': Permission denied\n")
                raise DockerException(["docker", "run", image], 1)

            return gen_denied()
        if host_scripts:
            fl = os.path.join(host_scripts[0], "filelist.txt")
            if os.path.exists(fl):
                with real_open(fl) as f:
                    rec["filelist_at_start"] = f.read()
            rec["scripts_listing"] = sorted(os.listdir(host_scripts[0]))
        pl = op["plan"]
        token = f"result-of-{image}-call{len(rec['calls'])}"
        rec["token"] = token

        def write_result():
            if host_results:
                with real_open(os.path.join(host_results[0], "ANALYSIS.root"), "w") as f:
                    f.write(token)

        def gen_plan():
            for name, kind, content in pl["extra"]:
                if host_results:
                    with real_open(os.path.join(host_results[0], name), "wb") as f:
                        f.write(content.encode() if kind == "text" else b"\x00\xff\xfe\x80binary")
            n = len(pl["chunks"])
            for k in range(n + 1):
                if pl["result_at"] is not None and pl["result_at"] == k:
                    write_result()
                if pl["fail_at"] is not None and pl["fail_at"] == k:
                    kind = pl.get("fail_kind", "docker")
                    if kind == "keyboard":
                        bump("fault:keyboard_interrupt_at_chunk")
                        raise KeyboardInterrupt()
                    if kind == "oserror":
                        bump("fault:docker_client_oserror_at_chunk")
                        raise ConnectionResetError(104, "connection to the docker daemon lost")
                    bump("fault:docker_exception_at_chunk")
                    raise DockerException(["docker", "run", image], 1)
                if k < n:
                    s, t = pl["chunks"][k]
                    yield (s, _chunk_bytes(t))

        def gen_chained():
            # really run the generated entry script in a simulated container
            bump("reach:chained_runs")
            rb = RUN_BACKEND[op["backend"]]
            croot = os.path.join(base, f"cont-{len(ledger.dirs)}-{len(rec['calls'])}")
            for d in ("bin", "scripts", "work", "sim/inv1", "home"):
                os.makedirs(os.path.join(croot, d))
            os.symlink(host_results[0], os.path.join(croot, "results"))
            for t in os.listdir(run_engine.STUBS):
                if t != "stub_lib.sh":
                    real_copy(os.path.join(run_engine.STUBS, t), os.path.join(croot, "bin", t))
            main = call["command"][0].split("/")[-1]
            for f in os.listdir(host_scripts[0]):
                src = os.path.join(host_scripts[0], f)
                if not os.path.isfile(src):
                    continue
                dst = os.path.join(croot, "scripts", f)
                if f == main:
                    with real_open(src) as fh:
                        txt = fh.read()
                    with real_open(dst, "w") as fh:
                        fh.write(run_engine.relocate(txt, croot))
                    os.chmod(dst, os.stat(src).st_mode & 0o777)
                else:
                    real_copy(src, dst)
            if rb == "atlas":
                os.makedirs(os.path.join(croot, "home/atlas"))
                with real_open(os.path.join(croot, "home/atlas/release_setup.sh"), "w") as f:
                    f.write(run_engine.SETUP_ATLAS)
            else:
                os.makedirs(os.path.join(croot, "opt/cms"))
                with real_open(os.path.join(croot, "opt/cms/entrypoint.sh"), "w") as f:
                    f.write(run_engine.SETUP_CMS)
            faults = run_engine.resolve_faults(op["chained"]["faults"], CHAIN_CALLS[rb])
            with real_open(os.path.join(croot, "sim/inv1/faults"), "w") as f:
                for flt in faults:
                    f.write(f"{flt['tool']} {flt['nth']} {flt['mode']} {flt['rc']}\n")
            env = {"PATH": f"{croot}/bin:/usr/bin:/bin", "LANG": "C", "HOME": croot + "/home", "VERIF_SIM": croot + "/sim/inv1",
                   "VERIF_ROOT": croot, "VERIF_STUBLIB": os.path.join(run_engine.STUBS, "stub_lib.sh"), "VERIF_TOKEN": token,
                   "VERIF_CMS": {"cms_r5": "r5", "cms_r7": "r7"}.get(rb, "")}
            import subprocess
            cp = subprocess.run([os.path.join(croot, "scripts", main)] + call["command"][1:], cwd=os.path.join(croot, "work"), env=env,
                                stdin=subprocess.DEVNULL, stdout=subprocess.PIPE, stderr=subprocess.PIPE, timeout=60)
            fired = os.path.exists(croot + "/sim/inv1/fired")
            rec["chained"] = {"rc": cp.returncode, "fired": fired,
                              "tail": (cp.stdout + cp.stderr)[-300:].decode(errors="replace").replace(croot, "<C>")}
            if fired:
                bump("fault:chained_tool_failure")
            out = cp.stdout
            for k in range(0, len(out), 97):
                yield ("stdout", out[k:k + 97])
            if cp.stderr:
                yield ("stderr", cp.stderr[:200])
            shutil.rmtree(croot, ignore_errors=True)
            if cp.returncode != 0:
                raise DockerException(["docker", "run", image], cp.returncode)

        return gen_chained() if op.get("chained") else gen_plan()

    docker.install(handler)

    datasets = {}

    def build_stream(op, tag):
        if op.get("reuse") is not None and op["reuse"] in datasets:
            ds, files, outdir, ds_image = datasets[op["reuse"]]
            bump("reach:dataset_object_reused")
            return finish_stream(op, tag, ds, files, outdir, ds_image)
        files_arg, files = _materialise_files(base, tag, op["files"])
        outdir = None
        if op["outdir"] == "given":
            outdir = os.path.join(base, f"out-{tag}")
            os.makedirs(outdir, exist_ok=True)
        elif op["outdir"] == "missing_dir":
            outdir = os.path.join(base, f"out-{tag}-does-not-exist")
        from pathlib import Path
        cls = _dataset_class(op["backend"])
        kw = {}
        ds_image = DEFAULT_IMAGE[op["backend"]]
        if op["image"] != "dataset_default":
            ds_image = f"custom/{op['backend']}-{tag}:t{tag}"
        # every execution of a case gets its own image so that the stand-in can tell them apart
        ds_image_name, ds_tag = ds_image.rsplit(":", 1)
        ds_tag = f"{ds_tag}-{tag}"
        kw["docker_image"] = ds_image_name
        kw["docker_tag"] = ds_tag
        if outdir is not None:
            kw["output_directory"] = Path(outdir)
        ds = cls(files_arg, **kw)
        datasets[tag] = (ds, files, outdir, f"{ds_image_name}:{ds_tag}")
        return finish_stream(op, tag, ds, files, outdir, f"{ds_image_name}:{ds_tag}")

    def finish_stream(op, tag, ds, files, outdir, ds_image):
        expected_image = ds_image
        all_images = [expected_image]
        s = ds
        mds = []
        if op["image"] in ("md_one", "md_two", "md_first_in_chain", "md_aba", "md_same_twice", "md_registry_port"):
            if op["image"] == "md_two":
                mds.append({"metadata_type": "docker", "image": f"md/first-{tag}:x"})
            if op["image"] == "md_registry_port":
                # a registry host with a port, and a digest instead of a tag: the name must reach docker untouched
                mds.append({"metadata_type": "docker", "image": f"registry.example:5000/md/chosen-{tag}@sha256:{'ab' * 32}"})
            else:
                mds.append({"metadata_type": "docker", "image": f"md/chosen-{tag}:y"})
            if op["image"] == "md_aba":
                # the same image asked for first and last, another one in between
                mds.insert(1, {"metadata_type": "docker", "image": f"md/between-{tag}:z"})
                mds.append(dict(mds[0]))
            if op["image"] == "md_same_twice":
                mds.append(dict(mds[0]))
            # which of several docker metadata wins is not stated by the property; every sensible rule is positional, so
            # the outermost and the innermost are accepted (when both name the same image, only that one)
            expected_image = sorted({mds[0]["image"], mds[-1]["image"]})
            all_images += sorted({m["image"] for m in mds})
        steps = [list(x) for x in QUERY[op["backend"]]]
        extra = [{"metadata_type": "add_job_script", "name": f"js{k}", "script": [f"# js {k}"], "depends_on": []}
                 for k in range(op.get("md_extra", 0))]
        if op["image"] == "md_first_in_chain":
            for m in mds:
                s = s.MetaData(m)
            mds = []
        for m in extra:
            s = s.MetaData(m)
        s = getattr(s, steps[0][0])(steps[0][1])
        for m in mds:
            s = s.MetaData(m)
        for st in steps[1:]:
            s = getattr(s, st[0])(st[1])
        if not isinstance(expected_image, list):
            expected_image = [expected_image]
        return s, files, outdir, expected_image, all_images

    async def run_one(op, tag, rec):
        try:
            s, files, outdir, expected_image, all_images = build_stream(op, tag)
        except BaseException as e:  # noqa
            rec["construct"] = type(e).__name__
            rec["construct_msg"] = str(e)[:200]
            return
        rec["construct"] = "ok"
        rec["files"] = files
        rec["outdir"] = outdir
        rec["expected_image"] = expected_image
        for im in all_images:
            ops_by_image[im] = rec
        eff_out = outdir if outdir is not None else tempfile.gettempdir() if case["start_state"] == "warmed" else tmpbase
        rec["eff_out"] = eff_out
        rec["outdir_before"] = sorted(os.listdir(eff_out)) if os.path.isdir(eff_out) else None
        if op.get("io_fault") in ("copy_enospc", "copy_torn"):
            armed["copy"] = op["io_fault"]
        elif op.get("io_fault"):
            armed["open"] = op["io_fault"]
        try:
            r = await (s.value_async() if op.get("title") is None else s.value_async(title=op["title"]))
            rec["execute"] = "ok"
            rec["returned"] = [str(x) for x in r] if isinstance(r, (list, tuple)) else repr(r)
            # read the returned file now: executions of one group that share an output directory overwrite
            # each other's ANALYSIS.root (documented in LocalDataset's docstring), which is not a violation
            try:
                with real_open(rec["returned"][0]) as fh:
                    rec["content_at_return"] = fh.read()
            except Exception as e:  # noqa
                rec["content_at_return"] = None
                rec["content_error"] = str(e)
        except BaseException as e:  # noqa
            rec["execute"] = type(e).__name__
            rec["execute_msg"] = str(e)[:200]
            rec["docker_exc_in_chain"] = _chain_has(e, DockerException)
            rec["oserror_in_chain"] = _chain_has(e, OSError)
        finally:
            armed["copy"] = None
            armed["open"] = None
        rec["outdir_after"] = sorted(os.listdir(eff_out)) if os.path.isdir(eff_out) else None
        rec["ledger_left"] = [os.path.basename(d) for d in ledger.left()]

    tag_n = 0
    try:
        for gi, group in enumerate(case["groups"]):
            recs = []
            for op in group:
                rec = {"op": op, "calls": [], "tag": tag_n}
                recs.append(rec)
                tag_n += 1

            async def run_group():
                tasks = [asyncio.ensure_future(run_one(r["op"], r["tag"], r)) for r in recs]
                await asyncio.gather(*tasks)

            n_calls_before = len(docker.calls)
            asyncio.run(run_group())
            if len(group) > 1:
                bump("reach:concurrent_groups")
                order = [c["image"] for c in docker.calls[n_calls_before:]]
                exp = [r["calls"][0]["image"] for r in recs if r["calls"]]
                if order == exp:
                    bump("reach:concurrent_no_interleaving")
                else:
                    bump("reach:concurrent_order_differs")
            for rec in recs:
                judge(rec, viols, bump, states, nontrivial, case["start_state"], real_open)
                log.append(digest(rec))
    finally:
        shutil.copy = real_copy
        builtins.open = real_open
        _io.open = real_open
        shutil.rmtree(base, ignore_errors=True)
    return {"log": log, "violations": viols, "stats": stats, "states": states, "nontrivial": nontrivial,
            "steps": sum(len(r.get("calls", [])) + 1 for r in log)}


CHAIN_CALLS = {
    "atlas": ["release_setup", "cp", "cp", "cp", "cp", "cmake", "make", "env_setup", "cp", "python", "cp"],
    "cms_r5": ["entrypoint", "mkedanlzr", "cp", "cp", "cp", "scram", "cp", "cmsRun", "root"],
    "cms_r7": ["entrypoint", "mkedanlzr", "cp", "cp", "cp", "scram", "cp", "cmsRun", "root"],
}


def digest(rec):
    op = rec["op"]
    return {"backend": op["backend"], "files": op["files"], "image": op["image"], "outdir": op["outdir"],
            "plan": [len(op["plan"]["chunks"]), op["plan"]["result_at"], op["plan"]["fail_at"], len(op["plan"]["extra"])],
            "io_fault": op.get("io_fault"), "title": (op.get("title") or "")[:20] or None, "chained": rec.get("chained"), "construct": rec.get("construct"),
            "execute": rec.get("execute"), "calls": [c["image"] for c in rec["calls"]],
            "returned": [os.path.basename(x) for x in rec.get("returned", [])] if isinstance(rec.get("returned"), list) else rec.get("returned")}


def judge(rec, viols, bump, states, nontrivial, start_state, real_open):
    """Reference model: (dataset, query metadata, plan) -> expected docker call and outcome class."""
    op = rec["op"]
    b = op["backend"]

    def V(inv, detail):
        viols.append({"property": "C17", "invariant": inv,
                      "detail": f"{b} files={op['files']} image={op['image']} outdir={op['outdir']} start={start_state} "
                                f"plan={digest(rec)['plan']} io_fault={op.get('io_fault')} chained={rec.get('chained')}: {detail}"})

    plan_ = op["plan"]
    shape = [b, op["files"], op["image"], op["outdir"], "chained" if op.get("chained") else
             ("fail" if plan_["fail_at"] is not None else "noresult" if plan_["result_at"] is None else "ok"),
             op.get("io_fault"), start_state]
    states.append(fingerprint(shape))
    # ---- construction
    if op["files"] in ("empty", "missing"):
        bump("reach:bad_files_at_construction")
        if rec["construct"] == "ok":
            V("bad-files-rejected-early", "a dataset with no files / a missing file was constructed without error")
        elif op["files"] == "empty" and rec["construct"] != "RuntimeError":
            V("bad-files-rejected-early", f"empty file list raised {rec['construct']}: {rec.get('construct_msg')}")
        elif op["files"] == "missing" and rec["construct"] != "FileNotFoundError":
            V("bad-files-rejected-early", f"missing file raised {rec['construct']}: {rec.get('construct_msg')}")
        if rec["calls"]:
            V("bad-files-rejected-early", "a container was started for an invalid file list")
        return
    if rec["construct"] != "ok":
        V("valid-execution-succeeds", f"constructing a dataset on valid files raised {rec['construct']}: {rec.get('construct_msg')}")
        return
    if rec.get("ledger_left"):
        V("tempdir-removed", f"temporary working directories still exist after the call: {rec['ledger_left']}")
    if op["files"] in TWO_DIRS:
        bump("reach:two_dirs")
        if rec["execute"] == "ok":
            V("bad-files-rejected-early", "files from two directories were accepted")
        elif rec["execute"] != "RuntimeError" and op.get("io_fault") not in ("filelist_open", "package_write"):
            V("bad-files-rejected-early", f"files from two directories raised {rec['execute']}: {rec.get('execute_msg')}")
        if rec["calls"]:
            V("bad-files-rejected-early", "a container was started although the files are in two directories")
        return
    early_fault = op.get("io_fault") in ("filelist_open", "package_write")
    if early_fault:
        if rec["execute"] == "ok":
            V("failure-propagates", f"injected {op['io_fault']} error but the execution returned {rec.get('returned')}")
        if rec["calls"]:
            V("docker-call", "a container was started although writing the package / file list failed")
        nontrivial.append(fingerprint(shape))
        return
    # ---- exactly one container, started correctly
    if len(rec["calls"]) != 1:
        V("docker-call", f"expected exactly one docker.run, saw {len(rec['calls'])}")
        return
    nontrivial.append(fingerprint(shape))
    call = rec["calls"][0]
    kw = call["kwargs"]
    if rec.get("refused"):
        V("docker-call", f"docker refuses to start the container: {rec['refused']}")
        return
    if call["image"] not in rec["expected_image"]:
        V("docker-call", f"image {call['image']!r}, expected one of {rec['expected_image']!r}")
    if call["command"] != ["/scripts/runner.sh"]:
        V("docker-call", f"command {call['command']!r}, expected ['/scripts/runner.sh']")
    if kw.get("remove") is not True or kw.get("stream") is not True:
        V("docker-call", f"remove={kw.get('remove')!r} stream={kw.get('stream')!r}, expected both True")
    vols = [tuple(str(x) for x in v) for v in (kw.get("volumes") or [])]
    data_dir = os.path.dirname(rec["files"][0])
    scripts = [v for v in vols if len(v) > 1 and v[1] == "/scripts"]
    results = [v for v in vols if len(v) > 1 and v[1] == "/results"]
    data = [v for v in vols if len(v) > 1 and v[1].rstrip("/") == "/data"]
    if len(scripts) != 1 or len(scripts[0]) < 3 or scripts[0][2] != "ro":
        V("docker-call", f"/scripts mount {scripts}, expected exactly one read-only mount of the package")
    if len(results) != 1 or (len(results[0]) > 2 and results[0][2] != "rw"):
        V("docker-call", f"/results mount {results}, expected exactly one read-write mount")
    if scripts and results and scripts[0][0] != results[0][0]:
        V("docker-call", "the package directory is not what is mounted at /results")
    if len(data) != 1 or data[0][0] != data_dir or len(data[0]) < 3 or data[0][2] != "ro":
        V("docker-call", f"/data mount {data}, expected the data directory {os.path.basename(data_dir)!r} read-only")
    others = sorted([list(v) for v in vols if v not in scripts + results + data])
    if others != sorted(CACHE_VOLUMES[b]):
        V("docker-call", f"cache volumes {others}, expected {CACHE_VOLUMES[b]}")
    exp_fl = "".join(f"/data/{os.path.basename(f)}\n" for f in rec["files"])
    if rec.get("filelist_at_start") != exp_fl:
        V("filelist", f"filelist.txt at container start {rec.get('filelist_at_start')!r}, expected {exp_fl!r}")
    if "runner.sh" not in (rec.get("scripts_listing") or []):
        V("docker-call", "the mounted package has no entry script")
    # ---- outcome
    binary_noise = any(t.startswith("\\xff\\xfe") for _, t in plan_["chunks"]) and not op.get("chained")
    if op.get("chained"):
        failed = rec["chained"]["rc"] != 0
        has_result = not failed
        if failed and not rec["chained"]["fired"]:
            # the entry script really ran under the stub tools and no tool was made to fail: the package that reached the
            # container is not one its own backend's tools can build and run (wrong or damaged files)
            V("valid-execution-succeeds", f"the generated entry script exited {rec['chained']['rc']} in the container although no step was "
                                          f"made to fail: {rec['chained'].get('tail', '')}")
    else:
        failed = plan_["fail_at"] is not None
        has_result = plan_["result_at"] is not None and (plan_["fail_at"] is None or plan_["result_at"] <= plan_["fail_at"])
    binary_left = any(k == "binary" for _, k, _ in plan_["extra"]) and not op.get("chained")
    new_files = sorted(set(rec["outdir_after"] or []) - set(rec["outdir_before"] or [])) if rec["outdir_after"] is not None else []
    new_files = [f for f in new_files if "dir-" not in f]
    if failed:
        bump("reach:container_failed")
        if rec["execute"] == "ok":
            V("failure-propagates", f"the container failed but the execution returned {rec.get('returned')}")
        elif plan_.get("fail_kind", "docker") != "docker" and not op.get("chained"):
            want = "KeyboardInterrupt" if plan_["fail_kind"] == "keyboard" else "ConnectionResetError"
            if rec["execute"] != want and not (binary_noise and rec["execute"] == "UnicodeDecodeError"):
                V("failure-propagates", f"the stream died of {want} but the caller got {rec['execute']} ({rec.get('execute_msg')})")
        elif not rec.get("docker_exc_in_chain"):
            V("failure-propagates", f"the container failed but the caller got {rec['execute']} ({rec.get('execute_msg')}) "
                                    f"without the DockerException in its chain")
        if new_files:
            V("failure-propagates", f"the container failed but new files appeared in the output directory: {new_files}")
        return
    if not has_result:
        bump("reach:clean_exit_without_result")
        if rec["execute"] == "ok":
            V("missing-result-raises", f"no result file was produced but the execution returned {rec.get('returned')}")
        return
    if op["outdir"] == "missing_dir":
        bump("reach:missing_output_directory")
        if rec["execute"] == "ok":
            V("result-returned", f"the output directory does not exist but the execution returned {rec.get('returned')}")
        return
    if op.get("io_fault") in ("copy_enospc", "copy_torn"):
        if rec["execute"] == "ok":
            V("failure-propagates", f"the final copy failed but the execution returned {rec.get('returned')}")
        return
    # clean run with a result file: must return it, copied into the output directory
    if binary_noise:
        bump("reach:non_utf8_chunk_on_success")
    if binary_left:
        bump("reach:binary_leftover_on_success")
    if rec["execute"] != "ok":
        V("result-returned" if (binary_noise or binary_left) else "valid-execution-succeeds",
          f"the container succeeded and wrote its result, but the execution raised {rec['execute']}: {rec.get('execute_msg')}"
          + (" [non-UTF-8 bytes in the container's output]" if binary_noise else "")
          + (" [binary leftover file in the run directory]" if binary_left else ""))
        return
    exp_path = os.path.join(rec["eff_out"], "ANALYSIS.root")
    if rec["returned"] != [exp_path]:
        V("result-returned", f"returned {rec['returned']!r}, expected [{exp_path!r}]")
        return
    content = rec.get("content_at_return")
    if content is None:
        V("result-returned", f"returned path cannot be read: {rec.get('content_error')}")
        return
    if op.get("chained"):
        if f"token={rec['token']}" not in content:
            V("result-returned", "the returned file is not the output of this run's job")
        inputs = [ln[6:] for ln in content.split("\n") if ln.startswith("input=")]
        if inputs != [f"/data/{os.path.basename(f)}" for f in rec["files"]]:
            V("filelist", f"the job read inputs {inputs}, expected the dataset's files in order")
    elif content != rec["token"]:
        V("result-returned", "the returned file does not hold the bytes the container wrote")
    bump("reach:result_returned")


def execute(case):
    return _child(case)


# ------------------------------------------------------------------ shrink / signature / describe

def _flat(case):
    return [op for g in case["groups"] for op in g]


def shrink(case, fails):
    def with_ops(ops, grouped=False):
        c = copy.deepcopy(case)
        c["groups"] = [ops] if grouped else [[o] for o in ops]
        return c

    ops = _flat(case)
    if fails(with_ops(ops)):
        ops = ddmin_list(ops, lambda o: bool(o) and fails(with_ops(o)))
        c = with_ops(ops)
    else:
        c = copy.deepcopy(case)
        return c
    # simplify the surviving ops
    for i in range(len(c["groups"])):
        op = c["groups"][i][0]
        for key, simple in (("chained", None), ("io_fault", None), ("md_extra", 0), ("image", "dataset_default"),
                            ("outdir", "given"), ("files", "one")):
            if op.get(key) != simple:
                c2 = copy.deepcopy(c)
                c2["groups"][i][0][key] = simple
                if fails(c2):
                    c = c2
                    op = c["groups"][i][0]
        pl = op["plan"]
        for cand in ({"chunks": [], "result_at": 0 if pl["result_at"] is not None else None,
                      "fail_at": 0 if pl["fail_at"] is not None else None, "extra": []},
                     dict(pl, extra=[]), dict(pl, fail_kind="docker"), dict(pl, chunks=pl["chunks"][:1], result_at=None if pl["result_at"] is None else 0,
                                              fail_at=None if pl["fail_at"] is None else min(pl["fail_at"], 1))):
            c2 = copy.deepcopy(c)
            c2["groups"][i][0]["plan"] = cand
            if fails(c2):
                c = c2
                break
    if c["start_state"] != "warmed":
        c2 = copy.deepcopy(c)
        c2["start_state"] = "warmed"
        if fails(c2):
            c = c2
    return c


def signature(case, v):
    ops = _flat(case)
    op = ops[-1] if ops else {}
    pl = op.get("plan", {})
    outcome = "chained" if op.get("chained") else "fail" if pl.get("fail_at") is not None else \
        "noresult" if pl.get("result_at") is None else "ok"
    extra = ""
    if "non-UTF-8" in v.get("detail", ""):
        extra = ":non-utf8-chunk"
    elif "binary leftover" in v.get("detail", ""):
        extra = ":binary-leftover"
    if "constructing a dataset" in v.get("detail", ""):
        return f"C17:{v['invariant']}:construct:{case['start_state']}"
    return f"C17:{v['invariant']}:{outcome}{extra}"


def describe(case):
    return {"start_state": case["start_state"], "groups": [[digest({"op": o, "calls": []}) for o in g] for g in case["groups"]]}


def evidence(prop, agg):
    return {"exhaustive": False,
            "explanation": "the systematic part (backend x start state x {plan shapes | file classes | image sources | outdir kinds}) "
                           "is enumerated completely; seeded multi-execution histories are sampled on top",
            "sweep_cases": len(_sweep_space())}
