"""Seeded generator of well-typed queries over the stand-in event data model, biased toward constructs
that create state in the generated job (aggregates, First, vector and 2-D columns, filters, several
collections, the same collection twice).

A generated query is {"backend", "steps": [[op, lambda text], ...], "md": [[pos, dict], ...], "wire",
"occurrences": [{"coll", "bank", "type", "uncond"}], "shape": str}.
"""

COLLECTIONS = {
    "atlas": {
        "Jets": {"banks": ["AntiKt4EMTopoJets", "AntiKt10LCTopoJets"], "ctype": "xAOD::JetContainer", "etype": "xAOD::Jet"},
        "Tracks": {"banks": ["InDetTrackParticles"], "ctype": "xAOD::TrackParticleContainer", "etype": "xAOD::TrackParticle"},
        "Electrons": {"banks": ["Electrons", "ForwardElectrons"], "ctype": "xAOD::ElectronContainer", "etype": "xAOD::Electron"},
        "Muons": {"banks": ["Muons"], "ctype": "xAOD::MuonContainer", "etype": "xAOD::Muon"},
        "MissingET": {"banks": ["MET_Core_AntiKt4EMTopo"], "ctype": "xAOD::MissingETContainer", "etype": "xAOD::MissingET"},
        "TruthParticles": {"banks": ["TruthParticles"], "ctype": "xAOD::TruthParticleContainer", "etype": "xAOD::TruthParticle"},
    },
    "cms_aod": {
        "Muons": {"banks": ["muons", "globalMuons"], "ctype": "reco::MuonCollection", "etype": "reco::Muon"},
        "Tracks": {"banks": ["generalTracks"], "ctype": "reco::TrackCollection", "etype": "reco::Track"},
        "TrackMuons": {"banks": ["standAloneMuons"], "ctype": "reco::TrackCollection", "etype": "reco::Track"},
        "Vertex": {"banks": ["offlinePrimaryVertices"], "ctype": "reco::VertexCollection", "etype": "reco::Vertex"},
        "GsfElectrons": {"banks": ["gsfElectrons"], "ctype": "reco::GsfElectronCollection", "etype": "reco::GsfElectron"},
    },
    "cms_miniaod": {
        "Muons": {"banks": ["slimmedMuons", "slimmedDisplacedMuons"], "ctype": "pat::MuonCollection", "etype": "pat::Muon"},
        "Electrons": {"banks": ["slimmedElectrons"], "ctype": "pat::ElectronCollection", "etype": "pat::Electron"},
        "Vertex": {"banks": ["offlineSlimmedPrimaryVertices"], "ctype": "reco::VertexCollection", "etype": "reco::Vertex"},
    },
}
API = {"atlas": "retrieve", "cms_aod": "getByLabel", "cms_miniaod": "getByToken"}
SINGLETONS = {"atlas": {"EventInfo": {"banks": ["EventInfo"], "ctype": "xAOD::EventInfo"}}}

DOUBLE_METHODS = ["pt", "eta", "phi", "m", "e"]
# methods that need a declaration (metadata) to be anything but double
DECLARED = {
    "nTrk": {"return_type": "int"},
    "charge": {"return_type": "int"},
    "isGood": {"return_type": "bool"},
    "fpt": {"return_type": "float"},
    "fm": {"return_type": "float"},
    "cvals": {"return_type_element": "double"},
    "ivals": {"return_type_element": "int"},
}
FLOATS = ["0.0", "0.5", "1.0", "2.0", "30.0", "-1.0"]
# opaque (but pure) user C++ supplied through metadata
USER_FUNCS = {
    "scale_it": {"metadata_type": "add_cpp_function", "name": "scale_it", "include_files": ["cmath"], "arguments": ["value", "factor"],
                 "code": ["double tmp = value * factor;", "double result = tmp + 0.0;"], "return_type": "double"},
    "twice_it": {"metadata_type": "add_cpp_function", "name": "twice_it", "include_files": [], "arguments": ["x"],
                 "code": ["double result = x * 2;"], "return_type": "double"},
    "pair_vec": {"metadata_type": "add_cpp_function", "name": "pair_vec", "include_files": ["vector"], "arguments": ["value"],
                 "code": ["std::vector<double> result;", "result.push_back(value);", "if (value > 0) result.push_back(value * 2);"],
                 "return_type": "double", "return_is_collection": True},
}


# an opaque user function that reads the current event on its own (the property covers "values that come from opaque user
# C++"): called with literal arguments only, its value still differs from event to event
USER_FUNCS["evt_weight"] = {"metadata_type": "add_cpp_function", "name": "evt_weight", "include_files": [], "arguments": ["k"],
                            "code": ["double result = simfw::event_value() * k;"], "return_type": "double"}

MD_TYPE = {"atlas": "add_atlas_event_collection_info", "cms_aod": "add_cms_aod_event_collection_info",
           "cms_miniaod": "add_cms_miniaod_event_collection_info"}
P_DECL = 0.10  # a collection is asked for through a metadata declaration (Fork<Name>) instead of the built-in


def declare_collection(md, r, backend, name):
    """Declare Fork<name> through metadata with the container / element type of the built-in <name>; with some
    probability declare a second collection of ANOTHER type next to it (used or not): each call must reach its own
    declaration. Returns the name to call."""
    def decl(n):
        c = COLLECTIONS[backend][n]
        d = {"metadata_type": MD_TYPE[backend], "name": "Fork" + n, "include_files": ["declared/" + n + ".h"],
             "container_type": c["ctype"], "element_type": c["etype"], "contains_collection": True}
        if backend != "atlas":
            d["element_pointer"] = False
        md[("coll", "Fork" + n)] = d
    decl(name)
    if r.random() < 0.6:
        others = sorted(n for n in COLLECTIONS[backend] if COLLECTIONS[backend][n]["ctype"] != COLLECTIONS[backend][name]["ctype"])
        if others:
            decl(r.choice(others))
    return "Fork" + name


P_REPLACE = 0.08  # a query re-declares ONE built-in collection name with the container / element type of another one


def choose_replacement(md, r, backend):
    """With probability P_REPLACE: {name: (ctype, etype)} for one built-in name that this query declares anew, through
    metadata, as a container of ANOTHER (existing) type - every e.<name>(bank) of the query must then be fetched as that
    type. Half of the ATLAS declarations come without link_libraries (the key is optional)."""
    if r.random() >= P_REPLACE:
        return {}
    names = sorted(COLLECTIONS[backend])
    name = r.choice(names)
    others = sorted(n for n in names if COLLECTIONS[backend][n]["ctype"] != COLLECTIONS[backend][name]["ctype"])
    if not others:
        return {}
    o = COLLECTIONS[backend][r.choice(others)]
    d = {"metadata_type": MD_TYPE[backend], "name": name, "include_files": ["redeclared/" + name + ".h"],
         "container_type": o["ctype"], "element_type": o["etype"], "contains_collection": True}
    if backend != "atlas":
        d["element_pointer"] = False
    elif r.random() < 0.5:
        d["link_libraries"] = ["redeclared" + name]
    md[("coll", name)] = d
    return {name: (o["ctype"], o["etype"])}


import os as _os

from ..core.util import weighted as weighted_choice  # noqa (used by qgen2)

# probability of the SelectMany-inside-an-expression shapes per expression slot (a defect lived there - fixed in /repo;
# VERIF_QGEN_FLAT raises it, which is how the repair was validated)
P_FLAT = float(_os.environ.get("VERIF_QGEN_FLAT", "0.10"))
P_CHAIN = 0.05  # ... and of an aggregate over two flattenings in a row


P_ODD_BANK = 0.10
P_RANGE = 0.08  # Range(...) windows / index loops / plain indexing per object-level expression slot


def odd_bank(r, coll_name, bank, occ):
    """Unusual but legal bank names: characters that cannot appear in an identifier, the collection's own name, a C++
    keyword, mixed case, a very long one - and, once such a name is in the query, its *twin*: the name that differs only
    where the first has a non-identifier character (whatever is derived from a bank name must keep the two apart)."""
    import re
    odd = [o["bank"] for o in occ if re.search(r"[^A-Za-z0-9_]", o["bank"])]
    if odd and r.random() < 0.75:
        return re.sub(r"[^A-Za-z0-9_]", "_", r.choice(odd))
    k = weighted_choice(r, [("colon", 5), ("colon2", 3), ("dash", 1), ("own_name", 1), ("keyword", 1), ("long", 1), ("upper", 1),
                            ("lower", 1), ("digit", 1), ("substvar", 2)])
    if k == "substvar":
        # the words the fetch code itself uses as placeholders / temporaries: a bank may be called like that
        return r.choice(["result", "collection_name", bank + ".result", "result.v2", "collection_name:result"])
    if k == "colon":
        return bank + ":" + r.choice(["x", "PAT", "1"])
    if k == "colon2":
        return bank + "::" + r.choice(["PAT", "RECO"])
    if k == "dash":
        return bank + r.choice(["-v2", ".v2"])
    if k == "own_name":
        return coll_name
    if k == "keyword":
        return r.choice(["class", "new", "int", "return"])
    if k == "long":
        return bank + "_" + "L" * 70
    if k == "upper":
        return bank.upper()
    if k == "lower":
        return bank.lower()
    return bank + r.choice(["1", "_1", "10"])


class QGen:
    def __init__(self, rng, backend, max_depth=3):
        self.r = rng
        self.b = backend
        self.max_depth = max_depth
        self.md = {}
        self.occ = []
        self.nvar = 0
        self.shape = []
        self.uncond = True  # are we at a place that is evaluated on every event?
        self.last = None
        self.self_join = None
        self.replaced = choose_replacement(self.md, rng, backend)
        if self.replaced:
            self.shape.append("redeclared_builtin")

    # ---- helpers
    def var(self, p):
        self.nvar += 1
        return f"{p}{self.nvar}"

    def declare(self, etype, method):
        key = (etype, method)
        if key not in self.md:
            d = {"metadata_type": "add_method_type_info", "type_string": etype, "method_name": method}
            if method == "subs":
                d["return_type_element"] = etype
            else:
                d.update(DECLARED[method])
            self.md[key] = d

    def use_func(self, name):
        self.md[("fn", name)] = USER_FUNCS[name]

    def coll(self, evar="e", only=None):
        names = sorted(COLLECTIONS[self.b])
        name = only or self.r.choice(names)
        c = COLLECTIONS[self.b][name]
        bank = self.r.choice(c["banks"])
        if self.self_join is not None and only is None:
            # a self-join: the very same collection and bank again, inside the loop over itself (object pairs)
            name, bank = self.self_join
            c = COLLECTIONS[self.b][name]
            if name in self.replaced:
                c = dict(c, ctype=self.replaced[name][0], etype=self.replaced[name][1])
            self.self_join = None
            self.shape.append("self_join")
            self.occ.append({"coll": name, "bank": bank, "type": c["ctype"], "uncond": self.uncond})
            return f'{evar}.{name}("{bank}")', c["etype"]
        if self.r.random() < 0.10:
            bank = "prod"  # the same bank name asked for as different collection types (the store is keyed by type AND bank)
        prev = [o["bank"] for o in self.occ if o["coll"] != name]
        if prev and self.r.random() < 0.15:
            bank = self.r.choice(prev)  # deliberately the bank name another collection of this query already uses
        if self.r.random() < P_ODD_BANK or (any(":" in o["bank"] for o in self.occ) and self.r.random() < 0.8):
            bank = odd_bank(self.r, name, bank, self.occ)
            self.shape.append("odd_bank")
        call = name
        if name in self.replaced:
            c = dict(c, ctype=self.replaced[name][0], etype=self.replaced[name][1])
        elif self.r.random() < P_DECL:
            call = declare_collection(self.md, self.r, self.b, name)
            self.shape.append("declared_coll")
        self.occ.append({"coll": call, "bank": bank, "type": c["ctype"], "uncond": self.uncond})
        self.last = (name, bank)
        return f'{evar}.{call}("{bank}")', c["etype"]

    def maybe_self_join(self, p=0.4):
        "the next collection asked for is, with probability p, the one asked for last (same bank)"
        if self.last is not None and self.r.random() < p:
            self.self_join = self.last

    # ---- scalars of an object
    def obj_num(self, o, etype, depth, want=None):
        """numeric scalar expression of object variable o. Returns (text, kind) kind in {'double','int'}"""
        r = self.r
        k = r.random()
        if want == "int" or (want is None and k < 0.15):
            m = r.choice(["nTrk", "charge"])
            self.declare(etype, m)
            self.shape.append("oint")
            return f"{o}.{m}()", "int"
        if etype == "xAOD::Jet" and r.random() < 0.12:
            # jet moments: read by name from the object
            self.shape.append("jetattr")
            return f"{o}.getAttributeFloat('{r.choice(['emf', 'Width', 'Timing'])}')", "double"
        if r.random() < 0.10:
            # a single-precision value (declared float): sums over it are accumulated in a wider type
            m = r.choice(["fpt", "fm"])
            self.declare(etype, m)
            self.shape.append("ofloat")
            return f"{o}.{m}()", "double"
        if k < 0.55 or depth <= 0:
            self.shape.append("odbl")
            return f"{o}.{r.choice(DOUBLE_METHODS)}()", "double"
        if r.random() < 0.10:
            # built-in helpers: math functions, DeltaR, jet attributes
            kk = r.random()
            if kk < 0.4:
                a, _ = self.obj_num(o, etype, depth - 1, want="double")
                self.shape.append("mathfn")
                return f"{r.choice(['sin', 'cos', 'tanh'])}({a})", "double"
            if kk < 0.7 or etype != "xAOD::Jet":
                self.shape.append("deltar")
                return f"DeltaR({o}.eta(), {o}.phi(), {r.choice(FLOATS)}, {r.choice(FLOATS)})", "double"
            if kk < 0.85:
                self.shape.append("jetattr")
                return f"{o}.getAttributeFloat('{r.choice(['emf', 'Width', 'Timing'])}')", "double"
            self.shape.append("jetattr_vec")
            return f"{o}.getAttributeVectorFloat('{r.choice(['EnergyPerSampling', 'x'])}').{r.choice(['Count', 'Sum'])}()", "double"
        if r.random() < 0.12:
            a, _ = self.obj_num(o, etype, depth - 1, want="double")
            if r.random() < 0.6:
                self.use_func("scale_it")
                self.shape.append("userfn")
                return f"scale_it({a}, {r.choice(FLOATS)})", "double"
            self.use_func("pair_vec")
            self.shape.append("userfn_coll")
            return f"pair_vec({a}).{r.choice(['Count', 'Sum'])}()", "double"
        if r.random() < 0.12 and not o.startswith("sub"):
            self.declare(etype, "subs")
            v = self.var("sub")
            self.shape.append("osubs")
            kk = r.random()
            if kk < 0.4:
                return f"{o}.subs().Count()", "int"
            if kk < 0.8:
                return f"{o}.subs().Select(lambda {v}: {v}.{r.choice(DOUBLE_METHODS)}()).{r.choice(['Sum', 'Max'])}()", "double"
            return f"{o}.subs().Where(lambda {v}: {v}.pt() > {r.choice(FLOATS)}).Count()", "int"
        if r.random() < P_RANGE:
            i = self.var("i")
            kk = r.random()
            if kk < 0.45:
                # a window of integers whose START depends on the object (its length may be the same for every object)
                m = r.choice(["nTrk", "charge"])
                self.declare(etype, m)
                n = r.choice(["1", "2", "2", "3"])
                tail, kind = r.choice([(".Sum()", "int"), (".Count()", "int"), (f".Select(lambda {i}: {i} * {r.choice(FLOATS)}).Sum()", "double"),
                                       (f".Select(lambda {i}: {i} + {o}.pt()).Max()", "double"), (f".Where(lambda {i}: {i} > 0).Count()", "int"),
                                       (".First()", "int")])
                self.shape.append("orange_window")
                return f"Range({o}.{m}(), {o}.{m}() + {n}){tail}", kind
            m = r.choice(["cvals", "ivals"])
            self.declare(etype, m)
            if kk < 0.8:
                # the classic index loop over the object's own vector
                self.shape.append("orange_index")
                return f"Range(0, {o}.{m}().Count()).Select(lambda {i}: {o}.{m}()[{i}]).Sum()", "double" if m == "cvals" else "int"
            # plain indexing: undefined (a loud fault) when the vector is too short
            self.shape.append("oindex")
            return f"{o}.{m}()[{r.choice(['0', '0', '1'])}]", "double" if m == "cvals" else "int"
        if k < 0.65:
            a, _ = self.obj_num(o, etype, depth - 1)
            self.shape.append("arith")
            return f"({a} {r.choice(['+', '-', '*'])} {r.choice(FLOATS)})", "double"
        if k < 0.72:
            a, _ = self.obj_num(o, etype, depth - 1)
            self.shape.append("abs")
            return f"abs({a})", "double"
        if k < 0.80:
            c = self.obj_bool(o, etype, depth - 1)
            a, _ = self.obj_num(o, etype, depth - 1, want="double")
            if r.random() < 0.3:
                m = r.choice(DOUBLE_METHODS)
                b2, _ = self.obj_num(o, etype, depth - 1)
                self.shape.append("oifexp_ladder")
                return f"(({a} if {c} else {r.choice(FLOATS)} if {o}.{m}() > {r.choice(FLOATS)} else {r.choice(FLOATS)}) {r.choice(['*', '+'])} {b2})", "double"
            self.shape.append("ifexp")
            return f"({a} if {c} else {r.choice(FLOATS)})", "double"
        if r.random() < 0.2:
            # difference of two filtered counts over the object's own vector
            m = r.choice(["cvals", "ivals"])
            self.declare(etype, m)
            c1, c2 = self.var("c"), self.var("c")
            self.shape.append("oagg_arith")
            return (f"({o}.{m}().Where(lambda {c1}: {c1} > 0).Count() {r.choice(['-', '+'])} "
                    f"{o}.{m}().Where(lambda {c2}: {c2} > 1).Count())"), "int"
        # aggregates over a nested numeric vector of the object
        m = r.choice(["cvals", "ivals"])
        self.declare(etype, m)
        v = self.var("c")
        agg = r.choice(["Count", "Sum", "Max", "CountWhere", "Agg"])
        self.shape.append("oagg" + agg)
        if agg == "Count":
            return f"{o}.{m}().Count()", "int"
        if agg == "Sum":
            return f"{o}.{m}().Sum()", "double" if m == "cvals" else "int"
        if agg == "Max":
            return f"{o}.{m}().Select(lambda {v}: {v} * 2).Max()", "double" if m == "cvals" else "int"
        if agg == "CountWhere":
            return f"{o}.{m}().Where(lambda {v}: {v} > 0).Count()", "int"
        a = self.var("a")
        return f"{o}.{m}().Aggregate(0.0, lambda {a}, {v}: {a} + {v})", "double"

    def obj_bool(self, o, etype, depth, typed=False):
        """typed=True: the func_adl front end must be able to see that this is a boolean (top-level Where step)"""
        r = self.r
        k = r.random()
        if typed:
            k = max(k, 0.15)
        if k < 0.15:
            self.declare(etype, "isGood")
            self.shape.append("obool")
            return f"{o}.isGood()"
        a, _ = self.obj_num(o, etype, max(0, depth - 1))
        cmp_ = f"{a} {r.choice(['>', '<', '>=', '<=', '!='])} {r.choice(FLOATS)}"
        if k < 0.75 or depth <= 0 or typed:
            self.shape.append("cmp")
            return cmp_
        b2 = self.obj_bool(o, etype, depth - 1)
        self.shape.append("boolop")
        if r.random() < 0.2:
            return f"(not ({cmp_}))"
        return f"(({cmp_}) {r.choice(['and', 'or'])} ({b2}))"

    # ---- sequences
    def seq_of_obj(self, evar, depth, allow_where=True):
        """(text of a sequence of objects hanging off the event, etype)"""
        src, etype = self.coll(evar)
        if allow_where and depth > 0 and self.r.random() < 0.12:
            # matching: keep the objects for which some object of another collection is close
            v, t = self.var("w"), self.var("t")
            was = self.uncond
            self.uncond = False
            self.maybe_self_join()
            outer = self.occ[-1]
            src2, et2 = self.coll(evar)
            # the inner collection is asked for once per element of the outer one (the predicate runs for every element)
            self.occ[-1]["per_element_of"] = [outer["type"], outer["bank"]] if outer["uncond"] else None
            self.uncond = was
            self.shape.append("where_match")
            cut = self.r.choice(["0.4", "1.0", "3.0"])
            return (f"{src}.Where(lambda {v}: {src2}.Where(lambda {t}: DeltaR({v}.eta(), {v}.phi(), {t}.eta(), {t}.phi()) < {cut})"
                    f".Count() {self.r.choice(['> 0', '== 0'])})"), etype
        if allow_where and self.b == "atlas" and self.r.random() < 0.12:
            # the objects are filtered against a value of a singleton container fetched inside the predicate
            v = self.var("w")
            was = self.uncond
            self.uncond = False
            self.occ.append({"coll": "EventInfo", "bank": "EventInfo", "type": "xAOD::EventInfo", "uncond": False})
            self.uncond = was
            self.shape.append("where_singleton")
            return f'{src}.Where(lambda {v}: {v}.pt() > {evar}.EventInfo("EventInfo").runNumber() - 300002)', etype
        if allow_where and self.r.random() < 0.4:
            v = self.var("w")
            src = f"{src}.Where(lambda {v}: {self.obj_bool(v, etype, depth - 1)})"
            self.shape.append("where")
        return src, etype

    def flat_seq(self, evar, depth, chain=False):
        """a sequence obtained by flattening (SelectMany inside an expression): (text, 'num'|'obj', etype, numkind)"""
        r = self.r
        s, et = self.seq_of_obj(evar, depth)
        v = self.var("m")
        if not chain and r.random() < 0.5:
            m = r.choice(["cvals", "ivals"])
            self.declare(et, m)
            self.shape.append("flat_member")
            return f"{s}.SelectMany(lambda {v}: {v}.{m}())", "num", None, "double" if m == "cvals" else "int"
        was = self.uncond
        self.uncond = False
        s2, et2 = self.seq_of_obj(evar, depth - 1, allow_where=r.random() < 0.3)
        self.uncond = was
        self.shape.append("flat_cross")
        txt = f"{s}.SelectMany(lambda {v}: {s2})"
        if chain or r.random() < 0.4:
            # two flattenings in a row: the loop nest of what is aggregated starts two loops further out
            v2 = self.var("m")
            if r.random() < 0.35:
                m = r.choice(["cvals", "ivals"])
                self.declare(et2, m)
                self.shape.append("flat_chain_member")
                return f"{txt}.SelectMany(lambda {v2}: {v2}.{m}())", "num", None, "double" if m == "cvals" else "int"
            was = self.uncond
            self.uncond = False
            s3, et3 = self.seq_of_obj(evar, 0, allow_where=r.random() < 0.3)
            self.uncond = was
            self.shape.append("flat_chain_cross")
            return f"{txt}.SelectMany(lambda {v2}: {s3})", "obj", et3, None
        return txt, "obj", et2, None

    def evt_num(self, evar, depth):
        """numeric scalar of the event (aggregates, First, singleton access)"""
        r = self.r
        k = r.random()
        k_flat = r.random()
        if depth > 0 and k_flat < P_FLAT + P_CHAIN:
            fs, kind, et, nk = self.flat_seq(evar, depth if k_flat < P_FLAT else 0, chain=k_flat >= P_FLAT)
            agg = r.choice(["Count", "Sum", "Max", "First"])
            self.shape.append("flat" + agg)
            if kind == "num":
                if agg == "Count":
                    return f"{fs}.Count()", "int"
                return f"{fs}.{agg}()", nk
            v = self.var("u")
            if agg == "Count":
                return f"{fs}.Count()", "int"
            if agg == "First":
                return f"{fs}.First().{r.choice(DOUBLE_METHODS)}()", "double"
            return f"{fs}.Select(lambda {v}: {v}.{r.choice(DOUBLE_METHODS)}()).{agg}()", "double"
        if self.b == "atlas" and k < 0.07:
            if r.random() < 0.4:
                # a singleton container declared through metadata (a value, not a sequence)
                self.md[("coll", "MyEventInfo")] = {"metadata_type": "add_atlas_event_collection_info", "name": "MyEventInfo",
                                                    "include_files": ["xAODEventInfo/EventInfo.h"], "container_type": "xAOD::EventInfo",
                                                    "contains_collection": False}
                bank = r.choice(["EventInfo", "OtherEventInfo"])
                self.occ.append({"coll": "MyEventInfo", "bank": bank, "type": "xAOD::EventInfo", "uncond": self.uncond})
                self.shape.append("singleton_md")
                return f'{evar}.MyEventInfo("{bank}").{r.choice(["runNumber", "eventNumber"])}()', "double"
            self.occ.append({"coll": "EventInfo", "bank": "EventInfo", "type": "xAOD::EventInfo", "uncond": self.uncond})
            self.shape.append("singleton")
            return f'{evar}.EventInfo("EventInfo").{r.choice(["runNumber", "eventNumber"])}()', "double"
        if r.random() < 0.05:
            # opaque user C++ that looks at the event itself, called with literal arguments only
            self.use_func("evt_weight")
            self.shape.append("evt_userfn_literal")
            return f"evt_weight({r.choice(FLOATS)})", "double"
        if depth > 0 and r.random() < 0.10:
            # arithmetic between two aggregates, the second one behind its own loop / filter
            s1, et1 = self.seq_of_obj(evar, 0, allow_where=r.random() < 0.5)
            s2, et2 = self.seq_of_obj(evar, 0, allow_where=False)
            w = self.var("w")
            cut = r.choice(FLOATS)
            self.shape.append("agg_arith")
            rhs = f"{s2}.Where(lambda {w}: {w}.{r.choice(DOUBLE_METHODS)}() > {cut}).Count()"
            if r.random() < 0.3:
                v = self.var("s")
                rhs = f"{s2}.Where(lambda {w}: {w}.{r.choice(DOUBLE_METHODS)}() > {cut}).Select(lambda {v}: {v}.{r.choice(DOUBLE_METHODS)}()).Sum()"
            return f"({s1}.Count() {r.choice(['+', '-', '*'])} {rhs})", "double"
        if depth > 0 and r.random() < 0.12:
            # the idiomatic guarded First: the condition protects the First() of the same sequence
            s_, et = self.seq_of_obj(evar, 0, allow_where=r.random() < 0.3)
            c0 = r.choice(["-1000.0", "0.0", "-1.0"])
            m = r.choice(DOUBLE_METHODS)
            self.shape.append("guarded_first")
            txt = (f"({c0} if {s_}.Count() == 0 else {s_}.First().{m}())" if r.random() < 0.6
                   else f"({s_}.First().{m}() if {s_}.Count() > 0 else {c0})")
            if r.random() < 0.6:
                txt = f"({txt} {r.choice(['/', '*', '+'])} {r.choice(['1000.0', '2.0', '0.5'])})"
            return txt, "double"
        if depth > 0 and r.random() < 0.06:
            # a ladder of conditionals (scale-factor style) used INSIDE a larger expression, followed by something that
            # needs code of its own (another collection, an aggregate, a user function)
            s_, et = self.seq_of_obj(evar, 0, allow_where=False)
            was = self.uncond
            self.uncond = False
            rest, _ = self.evt_num(evar, depth - 1)
            self.uncond = was
            n1, n2 = r.choice([("2", "1"), ("1", "0"), ("3", "1")])
            ladder = f"({r.choice(['1.5', '2.0'])} if {s_}.Count() > {n1} else {r.choice(['1.2', '0.5'])} if {s_}.Count() > {n2} else {r.choice(['1.0', '0.0'])})"
            self.shape.append("ifexp_ladder")
            if r.random() < 0.7:
                return f"({ladder} {r.choice(['*', '+', '-'])} {rest})", "double"
            return f"({rest} {r.choice(['*', '+'])} {ladder})", "double"
        if depth > 0 and r.random() < 0.06:
            # an aggregate over a sequence of sequences counts the OUTER elements
            s, et = self.seq_of_obj(evar, 0, allow_where=r.random() < 0.4)
            v, t = self.var("j"), self.var("t")
            was = self.uncond
            self.uncond = False
            kk = r.random()
            if kk < 0.4:
                m = r.choice(["cvals", "ivals"])
                self.declare(et, m)
                inner = f"{v}.{m}().Select(lambda {t}: {t} * 2)"
            elif kk < 0.7 and not s.startswith(f"{evar}.") is False and ".Where(" not in s:
                s2, et2 = self.seq_of_obj(evar, 0, allow_where=False)
                inner = f"{s2}.Select(lambda {t}: {t}.{r.choice(DOUBLE_METHODS)}())"
            else:
                self.declare(et, "subs")
                t = self.var("sub")
                inner = f"{v}.subs().Select(lambda {t}: {t}.{r.choice(DOUBLE_METHODS)}())"
            self.uncond = was
            self.shape.append("count2d")
            return f"{s}.Select(lambda {v}: {inner}).Count()", "int"
        if k < 0.30 or depth <= 0:
            s, _ = self.seq_of_obj(evar, depth)
            self.shape.append("count")
            return f"{s}.Count()", "int"
        if k < 0.55:
            s, et = self.seq_of_obj(evar, depth)
            v = self.var("s")
            a, kind = self.obj_num(v, et, depth - 1)
            agg = r.choice(["Sum", "Max", "Min"])
            self.shape.append("agg" + agg)
            return f"{s}.Select(lambda {v}: {a}).{agg}()", kind
        if k < 0.65:
            s, et = self.seq_of_obj(evar, depth)
            v, a = self.var("s"), self.var("a")
            x, _ = self.obj_num(v, et, depth - 1)
            self.shape.append("aggregate")
            return f"{s}.Select(lambda {v}: {x}).Aggregate(0.0, lambda {a}, x{self.nvar}: {a} + x{self.nvar})", "double"
        if k < 0.85:
            s, et = self.seq_of_obj(evar, depth)
            v = self.var("f")
            self.shape.append("first")
            if r.random() < 0.5:
                return f"{s}.First().{r.choice(DOUBLE_METHODS)}()", "double"
            x, kind = self.obj_num(v, et, depth - 1)
            return f"{s}.Select(lambda {v}: {x}).First()", kind
        if r.random() < 0.5:
            # conditional at event level, typically guarding a First() that may fault, possibly inside more arithmetic
            was = self.uncond
            cond = self.evt_bool(evar, depth - 1)
            self.uncond = False
            a, _ = self.evt_num(evar, depth - 1)
            self.uncond = was
            c0 = r.choice(["-1000.0", "0.0", "1.0"])
            self.shape.append("eifexp")
            txt = f"({c0} if {cond} else {a})" if r.random() < 0.5 else f"({a} if {cond} else {c0})"
            if r.random() < 0.5:
                txt = f"({txt} {r.choice(['/', '*', '+'])} {r.choice(['1000.0', '2.0', '0.5'])})"
            return txt, "double"
        a, _ = self.evt_num(evar, depth - 1)
        b2, _ = self.evt_num(evar, depth - 1)
        self.shape.append("earith")
        return f"({a} {r.choice(['+', '-', '*'])} {b2})", "double"

    def evt_bool(self, evar, depth):
        r = self.r
        if r.random() < 0.15:
            # an operand that loops over a sequence FIRST, then one that needs a collection without looping over it (a
            # singleton's value, the first element by index): which collection is asked for in which event follows the
            # order in which the query names them
            s_, et = self.seq_of_obj(evar, 0, allow_where=r.random() < 0.3)
            lhs = f"{s_}.Count() {r.choice(['>= 2', '> 0', '>= 1', '== 0'])}"
            was = self.uncond
            self.uncond = False
            if self.b == "atlas" and r.random() < 0.6:
                self.occ.append({"coll": "EventInfo", "bank": "EventInfo", "type": "xAOD::EventInfo", "uncond": False})
                rhs = f'{evar}.EventInfo("EventInfo").runNumber() {r.choice([">", "<", "!="])} {r.choice(["300001", "300002", "300003"])}'
            else:
                s2, et2 = self.coll(evar)
                rhs = f"{s2}[0].{r.choice(DOUBLE_METHODS)}() > {r.choice(FLOATS)}"
            self.uncond = was
            self.shape.append("ebool_loop_then_plain")
            return f"(({lhs}) {r.choice(['and', 'or'])} ({rhs}))"
        if depth > 0 and r.random() < 0.2:
            # guard pattern: the right operand is only evaluated when the left one allows it
            s_, et = self.seq_of_obj(evar, 0, allow_where=False)
            was = self.uncond
            self.uncond = False
            g = f"{s_}.First().{r.choice(DOUBLE_METHODS)}() > {r.choice(FLOATS)}"
            self.uncond = was
            self.shape.append("eguard")
            op = r.choice(["and", "or"])
            lhs = f"{s_}.Count() > 0" if op == "and" else f"{s_}.Count() == 0"
            return f"({lhs} {op} {g})"
        a, _ = self.evt_num(evar, max(0, depth - 1))
        self.shape.append("ecmp")
        return f"{a} {r.choice(['>', '>=', '<', '!='])} {r.choice(['0', '1', '2', '0.5'])}"

    def evt_column(self, evar, depth):
        """a column value for one row per event: scalar, 1-D or 2-D"""
        r = self.r
        k = r.random()
        if k < 0.35:
            t, _ = self.evt_num(evar, depth)
            return t
        if depth > 0 and r.random() < P_FLAT:
            fs, kind, et, nk = self.flat_seq(evar, depth)
            self.shape.append("col1d_flat")
            if kind == "num":
                return fs if r.random() < 0.5 else f"{fs}.Select(lambda z{self.nvar}: z{self.nvar} * 2)"
            v = self.var("u")
            return f"{fs}.Select(lambda {v}: {v}.{r.choice(DOUBLE_METHODS)}())"
        if k < 0.75:
            n_occ = len(self.occ)
            s, et = self.seq_of_obj(evar, depth)
            outer_occ = dict(self.occ[n_occ], was_uncond=self.occ[n_occ]["uncond"]) if len(self.occ) > n_occ else None
            v = self.var("j")
            was = self.uncond
            self.uncond = False
            if r.random() < P_RANGE and ".Where(" not in s and ".SelectMany(" not in s:
                # index loop over the collection itself: Range(0, n).Select(lambda i: coll[i].pt())
                i = self.var("i")
                self.shape.append("col1d_index_loop")
                txt = f"Range({r.choice(['0', '0', '0', '1'])}, {s}.Count()).Select(lambda {i}: {s}[{i}].{r.choice(DOUBLE_METHODS)}())"
            elif r.random() < 0.3 and depth > 0:
                # a chain: the value computed for each object is handed to a second lambda that uses it several times,
                # once inside a conditionally executed block and once outside
                x, _ = self.obj_num(v, et, depth - 1, want="double")
                kf = r.random()
                if kf < 0.4:
                    # a call all of whose inputs come from the loop variable (no literal argument)
                    self.use_func("twice_it")
                    x = f"twice_it({v}.{r.choice(DOUBLE_METHODS)}())"
                elif kf < 0.55:
                    x = f"DeltaR({v}.eta(), {v}.phi(), {v}.m(), {v}.e())"
                elif kf < 0.75:
                    self.use_func("scale_it")
                    x = f"scale_it({v}.{r.choice(DOUBLE_METHODS)}(), {r.choice(FLOATS)})" if r.random() < 0.5 else f"scale_it({x}, 2.0)"
                w = self.var("v")
                kk = r.random()
                if kk < 0.35:
                    y = f"({w} if {self.evt_bool(evar, 1)} else {w} * 3.0)"
                elif kk < 0.6:
                    s3, et3 = self.seq_of_obj(evar, 0, allow_where=False)
                    t3 = self.var("t")
                    y = f"({s3}.Where(lambda {t3}: {t3}.pt() > {w}).Count() + {w})"
                elif kk < 0.8:
                    y = f"({w} if {w} > {r.choice(FLOATS)} else {w} * 3.0)"
                else:
                    y = f"({w} + {w})"
                self.shape.append("col1d_chain")
                txt = f"{s}.Select(lambda {v}: {x}).Select(lambda {w}: {y})"
            elif r.random() < 0.25 and depth > 0:
                # per-object value that needs the event again (inner loop over another collection)
                self.maybe_self_join()
                outer = outer_occ if (".Where(" not in s and ".SelectMany(" not in s) else None
                n_before = len(self.occ)
                s2, et2 = self.seq_of_obj(evar, depth - 1)
                if outer is not None and outer.get("was_uncond") and len(self.occ) > n_before:
                    self.occ[n_before]["per_element_of"] = [outer["type"], outer["bank"]]
                v2 = self.var("t")
                x, _ = self.obj_num(v2, et2, 0)
                self.shape.append("col1d_inner_agg")
                txt = f"{s}.Select(lambda {v}: {s2}.Where(lambda {v2}: {x} > {v}.pt()).Count())"
            elif r.random() < 0.12:
                self.shape.append("col1d_bool")
                txt = f"{s}.Select(lambda {v}: {self.obj_bool(v, et, depth - 1)})"
            else:
                x, _ = self.obj_num(v, et, depth - 1)
                self.shape.append("col1d")
                txt = f"{s}.Select(lambda {v}: {x})"
            self.uncond = was
            return txt
        s, et = self.seq_of_obj(evar, depth)
        v = self.var("j")
        was = self.uncond
        self.uncond = False
        kk = r.random()
        if r.random() < 2 * P_RANGE:
            m = r.choice(["nTrk", "charge"])
            self.declare(et, m)
            i = self.var("i")
            self.shape.append("col2d_range")
            txt = (f"{s}.Select(lambda {v}: Range({v}.{m}(), {v}.{m}() + {r.choice(['1', '2', '3'])})"
                   f".Select(lambda {i}: {i} {r.choice(['* 1.0', '+ ' + v + '.pt()', '* 2'])}))")
        elif r.random() < 0.2:
            self.declare(et, "subs")
            v2 = self.var("sub")
            self.shape.append("col2d_subs")
            txt = f"{s}.Select(lambda {v}: {v}.subs().Select(lambda {v2}: {v2}.{r.choice(DOUBLE_METHODS)}()))"
        elif kk < 0.4:
            m = r.choice(["cvals", "ivals"])
            self.declare(et, m)
            self.shape.append("col2d_member")
            txt = f"{s}.Select(lambda {v}: {v}.{m}())"
        elif kk < 0.7:
            m = r.choice(["cvals", "ivals"])
            self.declare(et, m)
            c = self.var("c")
            self.shape.append("col2d_member_select")
            txt = f"{s}.Select(lambda {v}: {v}.{m}().Select(lambda {c}: {c} + {v}.pt()))"
        else:
            self.maybe_self_join()
            s2, et2 = self.seq_of_obj(evar, depth - 1, allow_where=r.random() < 0.5)
            v2 = self.var("t")
            x, _ = self.obj_num(v2, et2, 0)
            self.shape.append("col2d_cross")
            txt = f"{s}.Select(lambda {v}: {s2}.Select(lambda {v2}: {x} + {v}.eta()))"
        self.uncond = was
        return txt

    # ---- whole queries
    def query(self):
        r = self.r
        steps = []
        form = r.choice(["evt_single", "evt_tuple", "evt_dict", "per_object", "per_object_tuple", "two_step", "two_step_tuple",
                         "flat_rows", "pair_rows", "two_step_dict", "two_step_filtered", "evt_shared", "rows_evt_value"])
        depth = r.choice([1, 2, self.max_depth])
        self.shape.append(form)
        if r.random() < 0.25:
            steps.append(["Where", f"lambda e: {self.evt_bool('e', 1)}"])
            self.uncond = False
            self.shape.append("evt_where")
        cols = None
        if form == "evt_single":
            cols = [self.evt_column('e', depth)]
            steps.append(["Select", f"lambda e: {cols[0]}"])
        elif form in ("evt_tuple", "evt_dict"):
            n = r.choice([2, 2, 3])
            cols = [self.evt_column("e", depth) for _ in range(n)]
            if r.random() < 0.35:
                # bias: a column that can fault (First) AFTER columns that already pushed / assigned their values
                s_, et_ = self.seq_of_obj("e", 1)
                cols.append(f"{s_}.First().{r.choice(DOUBLE_METHODS)}()")
                self.shape.append("first_last")
            if form == "evt_tuple":
                steps.append(["Select", f"lambda e: ({', '.join(cols)})"])
            else:
                steps.append(["Select", "lambda e: {" + ", ".join(f"'c{i}': {c}" for i, c in enumerate(cols)) + "}"])
        elif form == "evt_shared":
            # one event-level value handed to a lambda that uses it several times: first inside a block that is only
            # executed for some events (a branch of a conditional, the right operand of and/or), then as a column of its own
            x, _ = self.evt_num("e", max(0, depth - 1))
            n = self.var("n")
            c0 = r.choice(["0.0", "-1.0", "-1000.0"])
            kk = r.random()
            if r.random() < 0.6:
                cond = self.evt_bool("e", 1)
                if kk < 0.35:
                    body = f"({c0} if {cond} else {n}, {n})"
                elif kk < 0.55:
                    body = f"({n} if {cond} else {c0}, {n})"
                elif kk < 0.75:
                    body = f"({c0} if {cond} else {n} * 2.0, {n}, {n} + 1.0)"
                else:
                    body = f"(({cond}) {r.choice(['and', 'or'])} ({n} > {r.choice(FLOATS)}), {n})"
                steps.append(["Select", f"lambda e: (lambda {n}: {body})({x})"])
                self.shape.append("shared_lambda")
            else:
                s_, et_ = self.seq_of_obj("e", 0, allow_where=r.random() < 0.3)
                t = self.var("p")
                steps.append(["Select", f"lambda e: ({s_}, {x})"])
                cnd = f"{t}[0].Count() {r.choice(['> 0', '== 0', '> 1'])}"
                if kk < 0.4:
                    body = f"({c0} if {cnd} else {t}[1], {t}[1])"
                elif kk < 0.7:
                    body = f"({t}[1] if {cnd} else {c0}, {t}[1])"
                else:
                    body = f"(({cnd}) {r.choice(['and', 'or'])} ({t}[1] > {r.choice(FLOATS)}), {t}[1])"
                steps.append(["Select", f"lambda {t}: {body}"])
                self.shape.append("shared_tuple")
        elif form == "rows_evt_value":
            # one row per object (or per number), each row carrying a value of the EVENT that is also used to decide which
            # rows there are: the value is computed once per event, before / outside the loop that fills the rows
            x, _ = self.evt_num("e", max(0, depth - 1))
            kk = r.random()
            if kk < 0.35:
                n, i = self.var("n"), self.var("i")
                steps.append(["Select", f"lambda e: {x}"])
                self.uncond = False
                body = r.choice([f"({i}, {n})", f"({i} * 1.0, {n}, {n} + {i})", f"{n} + {i}"])
                steps.append(["SelectMany", f"lambda {n}: Range(0, {r.choice(['3', '4', '5'])}).Where(lambda {i}: {i} {r.choice(['<', '<=', '!='])} {n}).Select(lambda {i}: {body})"])
                self.shape.append("range_rows")
            elif kk < 0.7:
                s_, et = self.seq_of_obj("e", 0, allow_where=False)
                t, o = self.var("t"), self.var("o")
                steps.append(["Select", f"lambda e: ({s_}, {x})"])
                self.uncond = False
                m = r.choice(DOUBLE_METHODS)
                flt = f".Where(lambda {o}: {o}.{m}() {r.choice(['>', '<', '!='])} {t}[1])" if r.random() < 0.7 else ""
                steps.append(["SelectMany", f"lambda {t}: {t}[0]{flt}.Select(lambda {o}: ({o}.{r.choice(DOUBLE_METHODS)}(), {t}[1]))"])
                self.shape.append("tuple_rows")
            else:
                s_, et = self.seq_of_obj("e", 0, allow_where=False)
                o = self.var("o")
                m = r.choice(DOUBLE_METHODS)
                flt = f".Where(lambda {o}: {o}.{m}() {r.choice(['>', '<', '!='])} {x})" if r.random() < 0.7 else ""
                steps.append(["SelectMany", f"lambda e: {s_}{flt}.Select(lambda {o}: ({o}.{r.choice(DOUBLE_METHODS)}(), {x}))"])
                self.shape.append("inline_rows")
            for oc in self.occ:
                oc["uncond"] = False  # laziness: what the row loop needs is fetched where the loop needs it
                oc.pop("per_element_of", None)
        elif form in ("per_object", "per_object_tuple"):
            s, et = self.seq_of_obj("e", depth)
            steps.append(["SelectMany", f"lambda e: {s}"])
            self.uncond = False
            v = self.var("o")
            if r.random() < 0.3:
                steps.append(["Where", f"lambda {v}: {self.obj_bool(v, et, 1, typed=True)}"])
                v = self.var("o")
                self.shape.append("obj_where")
            if form == "per_object":
                if r.random() < 0.04:
                    m = r.choice(["cvals", "ivals"])
                    self.declare(et, m)
                    self.shape.append("row_vec")
                    steps.append(["Select", f"lambda {v}: {v}.{m}()"])
                else:
                    steps.append(["Select", f"lambda {v}: {self.obj_num(v, et, depth)[0]}"])
            else:
                cols = [self.obj_num(v, et, depth - 1)[0] for _ in range(r.choice([2, 3]))]
                steps.append(["Select", f"lambda {v}: ({', '.join(cols)})"])
        elif form == "flat_rows":
            # one row per number: SelectMany over a per-object selection, then value-level Where / Select
            s_, et = self.seq_of_obj("e", depth)
            v = self.var("j")
            x, kind = self.obj_num(v, et, depth - 1)
            steps.append(["SelectMany", f"lambda e: {s_}.Select(lambda {v}: {x})"])
            self.uncond = False
            w = self.var("v")
            if r.random() < 0.4:
                steps.append(["Where", f"lambda {w}: {w} > {r.choice(FLOATS)}"])
                w = self.var("v")
                self.shape.append("val_where")
            steps.append(["Select", f"lambda {w}: {w} * 2" if r.random() < 0.5 else f"lambda {w}: ({w}, {w} + 1.0)"])
        elif form == "pair_rows":
            # one row per (object, sub-element): two SelectMany steps in a row
            s_, et = self.seq_of_obj("e", depth)
            steps.append(["SelectMany", f"lambda e: {s_}"])
            self.uncond = False
            v = self.var("o")
            if r.random() < 0.5:
                self.declare(et, "subs")
                steps.append(["SelectMany", f"lambda {v}: {v}.subs()"])
                w = self.var("sub")
                steps.append(["Select", f"lambda {w}: {self.obj_num(w, et, 1)[0]}"])
            else:
                m = r.choice(["cvals", "ivals"])
                self.declare(et, m)
                steps.append(["SelectMany", f"lambda {v}: {v}.{m}()"])
                w = self.var("c")
                steps.append(["Select", f"lambda {w}: {w} + 1"])
        elif form == "two_step_dict":
            # the common "collect the collections in a dict, then build the columns" pattern
            s1, et1 = self.seq_of_obj("e", depth)
            s2, et2 = self.seq_of_obj("e", depth)
            steps.append(["Select", "lambda e: {'a': " + s1 + ", 'b': " + s2 + "}"])
            d, q1, q2 = self.var("d"), self.var("j"), self.var("k")
            was = self.uncond
            self.uncond = False
            x1, _ = self.obj_num(q1, et1, depth - 1)
            x2, _ = self.obj_num(q2, et2, depth - 1)
            self.uncond = was
            acc = (lambda k: f"{d}.{k}") if r.random() < 0.5 else (lambda k: f"{d}['{k}']")
            cols = ["'x': " + f"{acc('a')}.Select(lambda {q1}: {x1})", "'y': " + f"{acc('b')}.Select(lambda {q2}: {x2})",
                    "'n': " + f"{acc('a')}.Count()"]
            if r.random() < 0.4:
                cols.append("'f': " + f"{acc('b')}.First().{r.choice(DOUBLE_METHODS)}()")
            if r.random() < 0.4:
                steps.append(["Where", f"lambda {d}: {acc('a')}.Count() > {r.choice(['0', '1'])}"])
                self.shape.append("dict_where")
                # evaluation is lazy: what is only used behind the filter is fetched only for events that pass it
                for o in self.occ:
                    o["uncond"] = False
                    o.pop("per_element_of", None)
            steps.append(["Select", f"lambda {d}: " + "{" + ", ".join(cols) + "}"])
        elif form == "two_step_filtered":
            s_, et = self.seq_of_obj("e", depth)
            steps.append(["Select", f"lambda e: {s_}"])
            v, q = self.var("q"), self.var("j")
            steps.append(["Where", f"lambda {v}: {v}.Count() {r.choice(['> 0', '> 1', '== 2'])}"])
            for o in self.occ[1:]:
                o["uncond"] = False  # anything but the filtered sequence itself sits behind the filter
            for o in self.occ:
                o.pop("per_element_of", None)
            v2 = self.var("q")
            was = self.uncond
            self.uncond = False
            x, _ = self.obj_num(q, et, depth - 1)
            self.uncond = was
            if r.random() < 0.5:
                steps.append(["Select", f"lambda {v2}: {v2}.Select(lambda {q}: {x})"])
            else:
                steps.append(["Select", f"lambda {v2}: ({v2}.First().{r.choice(DOUBLE_METHODS)}(), {v2}.Select(lambda {q}: {x}))"])
        elif form == "two_step":
            s, et = self.seq_of_obj("e", depth)
            steps.append(["Select", f"lambda e: {s}"])
            v, q = self.var("q"), self.var("j")
            was = self.uncond
            self.uncond = False
            x, _ = self.obj_num(q, et, depth - 1)
            self.uncond = was
            if r.random() < 0.5:
                steps.append(["Select", f"lambda {v}: {v}.Select(lambda {q}: {x})"])
            else:
                steps.append(["Select", f"lambda {v}: ({v}.Count(), {v}.Select(lambda {q}: {x}))"])
        else:
            s1, et1 = self.seq_of_obj("e", depth)
            s2, et2 = self.seq_of_obj("e", depth)
            steps.append(["Select", f"lambda e: ({s1}, {s2})"])
            v, q1, q2 = self.var("p"), self.var("j"), self.var("k")
            was = self.uncond
            self.uncond = False
            x1, _ = self.obj_num(q1, et1, depth - 1)
            x2, _ = self.obj_num(q2, et2, depth - 1)
            self.uncond = was
            steps.append(["Select", f"lambda {v}: ({v}[0].Select(lambda {q1}: {x1}), {v}[1].Select(lambda {q2}: {x2}), {v}[1].Count())"])
        if r.random() < 0.2 and steps[-1][0] == "Select" and form.startswith("evt") and not any(s[0] == "Where" for s in steps):
            pass
        ncols = None
        if form in ("evt_tuple", "evt_dict") and cols:
            ncols = len(cols)
        elif form == "evt_single":
            ncols = 1
        if ncols and form != "evt_dict" and r.random() < 0.2:
            # an explicit result tree with its own file, tree and column names
            names = [f"{r.choice(['pt', 'n', 'val', 'x'])}_{i}" for i in range(ncols)]
            steps.append(["AsROOTTTree", [r.choice(["out.root", "ANALYSIS.root"]), r.choice(["mytree", "t1"]), names]])
            self.shape.append("explicit_tree")
        md = [[0, d] for _, d in sorted(self.md.items(), key=lambda kv: repr(kv[0]))]
        return {"backend": self.b, "steps": steps, "md": md, "wire": "qastle" if r.random() < 0.2 else "ast",
                "occurrences": self.occ, "shape": ">".join(self.shape), "cols": cols}


AGGS = {"Count", "Sum", "Max", "Min", "First", "Aggregate"}


def has_agg_over_selectmany(steps):
    """True if some lambda of the query aggregates (Count/Sum/Max/Min/First/Aggregate) directly over a sequence
    produced by SelectMany *inside an expression* (optionally through Select/Where) - the shape of a recorded finding."""
    import ast as _ast

    def chain_has_selectmany(node):
        while isinstance(node, _ast.Call) and isinstance(node.func, _ast.Attribute):
            if node.func.attr == "SelectMany":
                return True
            if node.func.attr in ("Select", "Where"):
                node = node.func.value
                continue
            return False
        return False

    for op, text in steps:
        if not isinstance(text, str):
            continue
        try:
            tree = _ast.parse(text, mode="eval")
        except SyntaxError:
            continue
        for n in _ast.walk(tree):
            if isinstance(n, _ast.Call) and isinstance(n.func, _ast.Attribute) and n.func.attr in AGGS:
                if chain_has_selectmany(n.func.value):
                    return True
            # First().pt(): the aggregate is the receiver of a method call - covered by the walk above
    return False


def generate(rng, backend):
    return QGen(rng, backend).query()


REPLACEMENTS = {
    # a metadata declaration that replaces a built-in collection by one of another (existing) container/element type
    "atlas": ("add_atlas_event_collection_info", [("Jets", "xAOD::MuonContainer", "xAOD::Muon"), ("Muons", "xAOD::JetContainer", "xAOD::Jet"),
                                                  ("Tracks", "xAOD::ElectronContainer", "xAOD::Electron")]),
    "cms_aod": ("add_cms_aod_event_collection_info", [("Muons", "reco::TrackCollection", "reco::Track"),
                                                     ("Tracks", "reco::MuonCollection", "reco::Muon")]),
    "cms_miniaod": ("add_cms_miniaod_event_collection_info", [("Muons", "pat::ElectronCollection", "pat::Electron"),
                                                             ("Electrons", "pat::MuonCollection", "pat::Muon")]),
}


def replaced_collection_query(rng, backend):
    mdt, opts = REPLACEMENTS[backend]
    name, ctype, etype = opts[rng.randrange(len(opts))]
    md = {"metadata_type": mdt, "name": name, "include_files": ["replaced/" + name + ".h"], "container_type": ctype,
          "element_type": etype, "contains_collection": True}
    if backend != "atlas":
        md["element_pointer"] = False
    bank = COLLECTIONS[backend][name]["banks"][0]
    return {"backend": backend, "steps": [["SelectMany", f'lambda e: e.{name}("{bank}")'], ["Select", "lambda x: x.pt()"]],
            "md": [[0, md]], "wire": "ast", "occurrences": [], "shape": "replaced_collection", "cols": None}
