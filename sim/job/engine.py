"""Engine `job`: the generated job as a stream processor over a simulated framework (C05; C06 scoped).

Real: translator + templates (package rendered by the real executor), and the emitted C++ itself,
compiled by g++. Stub: the experiment frameworks (sim/job/standin/simfw.h) and the driver that owns
event order, job boundaries and the event store's failures.
"""
import copy
import os
import shutil
import tempfile

from ..core.shrink import ddmin_list
from ..core.util import fingerprint, run_rng, weighted
from . import build, qgen, qgen2

NAME = "job"
ISOLATE = False  # execute() isolates itself: it needs a pristine parent for the history-free rebuild
CASE_TIMEOUT = 300.0
CHUNK = 4
UNIVERSE = 24

REAL_VS_STUB = {
    "real": ["func_adl_xAOD translator, executors and templates (package rendered from /repo's working tree)",
             "the emitted query.cxx/query.h and Analyzer.cc, compiled by g++ -std=c++17 (thorough: + ASan/UBSan) and executed"],
    "stub": ["EL::AnaAlgorithm / StatusCode / ANA_CHECK / evtStore / TTree / xAOD containers; edm::EDAnalyzer / Event / Handle / "
             "InputTag / consumes / Service<TFileService> (sim/job/standin/simfw.h)",
             "driver that plays schedules: job instances, event order, duplicate deliveries, failing retrievals (sim/job/standin/driver.cc)",
             "event content: a pure function of (batch seed, event id, container type, bank) computed inside the driver",
             "event store memory model, per run: products of finished events are poisoned and kept alive for two events, or (3 runs in 10) "
             "objects are recycled in place so that addresses repeat from event to event"],
}

PROPERTIES = {
    "C05": {
        "level": "exploration",
        "wall_cap": {"quick": 200.0, "thorough": 3200.0},
        "rule": "seeded queries (typed generator biased to aggregates, First, vector/2-D columns, filters, several collections) on a "
                "seeded backend are translated, compiled and run. A canonical run (each of 24 events alone in a fresh job instance) "
                "fixes outcome(k); then seeded schedules (permutations, repeats adjacent and apart, splits into several job "
                "instances, restarts after faulting events, one OS process per segment, 200-delivery single job) must reproduce "
                "outcome(k) at every delivery. Non-trivial = a compiled job for which at least one event produces a row and at "
                "least one schedule ran; distinct = distinct (query shape signature, backend).",
        "real_vs_stub": REAL_VS_STUB,
        "assumptions": [
            "the stand-in frameworks honour what the templates and emitted code touch (DESIGN.md 4.1); real ROOT/EventLoop/CMSSW "
            "behaviour beyond that is not modelled",
            "queries the translator rejects or g++ rejects are counted and skipped (they are C09 / C02-clause-2 matters)",
            "the oracle is reference-free: consistently wrong values are invisible by design (C01/C13)",
        ],
    },
    "C06": {
        "level": "fault_enumeration",
        "wall_cap": {"quick": 200.0, "thorough": 3200.0},
        "rule": "for each seeded compiled job: (a) the stand-in event store logs (api, container type, bank) of every retrieval; the "
                "set retrieved on an event must be a subset of the query's e.<Collection>(bank) occurrences with the backend's idiom "
                "and container type, every unconditional occurrence must be retrieved on every event, and every miniAOD token must "
                "have been created once in the constructor by consumes<T>(InputTag(bank)) for an occurrence; (b) for sampled events "
                "every retrieval index is failed in turn: the delivery must end in failure before any row is filled, without a "
                "signal (on the CMS backends, where only the use of an invalid handle is an error, a delivery that completes "
                "must have written exactly the rows it writes when the store works; rows already written for earlier objects of a several-rows-per-event query must be a prefix of "
                "the event's rows), and a fresh instance must then reproduce outcome(k). Non-trivial = a job with at least one enumerated "
                "failing retrieval; distinct = (shape, backend, retrieval position).",
        "real_vs_stub": REAL_VS_STUB,
        "assumptions": [
            "only the run-time clauses of C06 are decided (what is fetched, with which idiom/type/bank, and what a failed fetch "
            "does); header/link-library requests and the metadata-validation clauses are pure functions of the query and not claimed",
            "a failed ATLAS retrieval returns StatusCode::FAILURE and leaves the pointer untouched; a failed CMS retrieval leaves "
            "the handle invalid and dereferencing it throws (as CMSSW does)",
        ],
    },
}

BACKENDS = ["atlas", "cms_aod", "cms_miniaod"]
N_RUNS = {"quick": 600, "thorough": 6000}
_scratch = None
_tc = None


def prepare(prop, tier, seed):
    global _scratch, _tc
    import logging
    import sys
    logging.disable(logging.CRITICAL)
    stand_in = os.path.join(os.path.dirname(os.path.dirname(os.path.abspath(__file__))), "stand_in")
    if stand_in not in sys.path:
        sys.path.insert(0, stand_in)
    from ..svc import xlate  # noqa  (query building + executors)
    import func_adl_xAOD.atlas.xaod.executor  # noqa
    import func_adl_xAOD.cms.aod.executor  # noqa
    import func_adl_xAOD.cms.miniaod.executor  # noqa
    _scratch = tempfile.mkdtemp(prefix="verif-job-")
    import atexit
    atexit.register(lambda p=_scratch, pid=os.getpid(): os.getpid() == pid and shutil.rmtree(p, ignore_errors=True))
    _tc = build.setup_toolchain(_scratch, sanitize=(tier == "thorough" and os.environ.get("VERIF_NO_SAN") is None))


def plan(prop, tier, seed):
    return N_RUNS[tier]


# ------------------------------------------------------------------ generation

def gen_schedules(rng, n, faulting=()):
    """Seeded schedules over the event universe. A schedule is a list of segments, a segment a list of event ids."""
    out = []
    U = list(range(UNIVERSE))
    for _ in range(n):
        kind = weighted(rng, [("perm", 3), ("repeats", 3), ("split", 3), ("reject_then_dense", 2), ("long", 1), ("per_process", 1),
                              ("store_faults", 3)])
        if kind == "perm":
            ids = U[:]
            rng.shuffle(ids)
            segs = [ids]
        elif kind == "repeats":
            ids = [rng.choice(U) for _ in range(rng.randrange(4, 40))]
            for _ in range(rng.randrange(1, 6)):
                k = rng.randrange(len(ids))
                ids.insert(k, ids[k])  # adjacent repeat
            segs = [ids]
        elif kind in ("split", "per_process"):
            ids = [rng.choice(U) for _ in range(rng.randrange(6, 48))]
            cuts = sorted(rng.sample(range(1, len(ids)), min(len(ids) - 1, rng.randrange(1, 5))))
            segs = [ids[a:b] for a, b in zip([0] + cuts, cuts + [len(ids)])]
        elif kind == "reject_then_dense":
            ids = []
            for _ in range(rng.randrange(6, 30)):
                ids.append(rng.choice(U))
            segs = [ids]
        elif kind == "store_faults":
            # the event store fails a retrieval of some deliveries (an event lacks a collection): whatever the job does
            # with that event (C06 judges it), the events after it must come out as they do alone
            ids = [rng.choice(U) for _ in range(rng.randrange(8, 40))]
            segs = [ids]
            faults = {str(p): rng.random() for p in range(len(ids)) if rng.random() < 0.2}
            out.append({"kind": kind, "segments": segs, "faults": faults})
            continue
        else:
            segs = [[rng.choice(U) for _ in range(200)]]
        out.append({"kind": kind, "segments": segs})
    return out


def make_case(prop, tier, seed, i):
    rng = run_rng(NAME, seed, i)  # the same queries for C05 and C06: one compile pool, two oracles
    backend = BACKENDS[i % 3] if rng.random() < 0.8 else rng.choice(BACKENDS)
    # two generators: hand-picked idioms with a bias (qgen) and a fully compositional grammar (qgen2)
    q = qgen2.generate(rng, backend) if rng.random() < 0.45 else qgen.generate(rng, backend)
    n_sched = 12 if tier == "quick" else 40
    case = {"engine": NAME, "prop": prop, "seed": seed, "run": i, "backend": backend, "query": q,
            "event_seed": rng.randrange(1 << 30)}
    if prop == "C05":
        case["schedules"] = gen_schedules(rng, n_sched)
    else:
        case["fail_events"] = sorted(rng.sample(range(UNIVERSE), 6 if tier == "quick" else 16))
        case["only_fail"] = None
    # history of the translating process: queries handled before the one under test (a long-lived code generator)
    case["pre"] = []
    hrng = run_rng(NAME, seed, i, "history")
    if hrng.random() < 0.35:
        for _ in range(hrng.choice([1, 1, 2])):
            kind = hrng.choice(["other_backend", "same_executor", "same_executor_replaced", "replaced", "same_object", "shared_base"])
            if kind == "other_backend":
                ob = hrng.choice([b for b in BACKENDS if b != backend])
                case["pre"].append({"backend": ob, "query": qgen.generate(hrng, ob), "same_executor": False})
            elif kind == "same_executor":
                case["pre"].append({"backend": backend, "query": qgen.generate(hrng, backend), "same_executor": True})
            elif kind == "same_object":
                # the very same query object is translated twice (ds...value() called again)
                case["pre"].append({"backend": backend, "query": q, "same_executor": False, "share": True})
            elif kind == "shared_base":
                # another query built on the same base stream (first step) as the query under test
                q2 = copy.deepcopy(q)
                q2["steps"] = q["steps"][:1] + ([["Select", "lambda zz: 1"]] if q["steps"][0][0] == "Where" else [])
                if len(q2["steps"]) == 1 and q2["steps"][0][0] == "SelectMany":
                    q2["steps"].append(["Select", "lambda zz: zz.pt()"])
                case["pre"].append({"backend": backend, "query": q2, "same_executor": False, "share": True})
            else:
                case["pre"].append({"backend": backend, "query": qgen.replaced_collection_query(hrng, backend),
                                    "same_executor": kind == "same_executor_replaced"})
    return case


# ------------------------------------------------------------------ execution

def translate_and_build(case, work):
    from pathlib import Path
    from ..svc import xlate
    q = case["query"]
    pkg = os.path.join(work, "pkg")
    os.makedirs(pkg)
    exe = xlate.executor_class(case["backend"])()
    streams = {}
    share_main = any(p.get("share") for p in case.get("pre") or [])
    for n, pre in enumerate(case.get("pre") or []):
        pdir = os.path.join(work, f"pre{n}")
        os.makedirs(pdir)
        try:
            pe = exe if pre["same_executor"] and pre["backend"] == case["backend"] else xlate.executor_class(pre["backend"])()
            pe.write_cpp_files(pe.apply_ast_transformations(xlate.build_ast(pre["query"], streams if pre.get("share") else None)), Path(pdir))
        except Exception:  # noqa - a failed earlier query is a legitimate history too
            pass
        shutil.rmtree(pdir, ignore_errors=True)
    try:
        a = xlate.build_ast(q, streams if share_main else None)
        exe.write_cpp_files(exe.apply_ast_transformations(a), Path(pkg))
    except Exception as e:  # noqa
        return None, "rejected", f"{type(e).__name__}: {str(e)[:200]}"
    job = os.path.join(work, "job")
    os.makedirs(job)
    exe_path, err = build.build_job(_tc, case["backend"], pkg, job)
    if exe_path is None:
        return None, "uncompilable", err
    return exe_path, "ok", None


def outcome_of(d):
    if d["status"] == "OK":
        return ["rows", d["rows"]]
    if d["status"] == "FAIL":
        return ["fault", "status-failure", d["rows"]]
    if d["status"] == "EXC":
        what = d.get("detail", "")
        kind = "empty-first" if "First()" in what else "out-of-range" if "range" in what or "at" in what else what[:40]
        return ["fault", kind, d["rows"]]
    return ["died", d["status"]]


def canonical(exe, case, work):
    """Every event alone in its own job instance."""
    lines = [f"SEED {case['event_seed']}"]
    for k in range(UNIVERSE):
        lines += ["SEGMENT", f"EVENT {k}"]
    rc, out, err = build.run_schedule(exe, lines, work, tag="canon")
    dels, segs = build.parse_output(out)
    return rc, dels, segs, err


def play(exe, case, sched, work, tag, nret=None):
    if sched["kind"] == "per_process":
        dels = []
        rcs = []
        for si, seg in enumerate(sched["segments"]):
            lines = [f"SEED {case['event_seed']}", "SEGMENT"] + [f"EVENT {k}" for k in seg]
            rc, out, err = build.run_schedule(exe, lines, work, tag=f"{tag}-p{si}")
            d, _ = build.parse_output(out)
            dels.extend(d)
            rcs.append(rc)
        return (0 if all(r == 0 for r in rcs) else rcs), dels, ""
    lines = [f"SEED {case['event_seed']}"]
    pos = 0
    faults = sched.get("faults") or {}
    for seg in sched["segments"]:
        lines.append("SEGMENT")
        for k in seg:
            f = faults.get(str(pos))
            if f is not None and nret and nret.get(k):
                lines.append(f"EVENT {k} {int(f * nret[k])}")
            else:
                lines.append(f"EVENT {k}")
            pos += 1
    rc, out, err = build.run_schedule(exe, lines, work, tag=tag)
    dels, _ = build.parse_output(out)
    return rc, dels, err


def _c05(case, exe, work, res):
    viols, stats = res["violations"], res["stats"]

    def bump(k, n=1):
        stats[k] = stats.get(k, 0) + n

    rc, dels, segs, err = canonical(exe, case, work)
    if rc != 0 or len(dels) != UNIVERSE:
        # the job dies on its own on some event, alone: a query-level fault outside C05 (counted, not judged)
        bump("canonical_run_died")
        res["log"].append({"canonical": "died", "rc": rc, "err": err[-200:]})
        return
    outcome = {d["id"]: outcome_of(d) for d in dels}
    nret = {d["id"]: len(d["retrievals"]) for d in dels}
    n_rows = sum(len(o[1]) for o in outcome.values() if o[0] == "rows")
    n_fault = sum(1 for o in outcome.values() if o[0] == "fault")
    bump("events_with_rows", sum(1 for o in outcome.values() if o[0] == "rows" and o[1]))
    bump("fault:query_level_fault_events", n_fault)
    res["log"].append({"canonical_rows": n_rows, "faulting_events": n_fault})
    for si, sched in enumerate(case["schedules"]):
        rc, dels, err = play(exe, case, sched, work, f"s{si}", nret)
        bump("schedules")
        bump("deliveries", len(dels))
        bump("reach:schedule_" + sched["kind"])
        expected_ids = [k for seg in sched["segments"] for k in seg]
        if rc != 0 or [d["id"] for d in dels] != expected_ids:
            viols.append({"property": "C05", "invariant": "event-outcome-depends-on-history", "schedule": si,
                          "detail": f"schedule {si} ({sched['kind']}): the job died or skipped deliveries (rc={rc}, "
                                    f"{len(dels)}/{len(expected_ids)} deliveries) although every event runs alone: {err[-300:]}"})
            continue
        prev = None
        seen_fault = False
        for pos, d in enumerate(dels):
            got = outcome_of(d)
            if d["failed_retrieval"] is not None:
                # the store failed a retrieval of this delivery: its own outcome is C06's business, not compared here
                bump("fault:store_failed_retrieval_inside_schedule")
                if d["status"] == "OK":
                    bump("reach:job_continued_after_failed_retrieval")
                prev = d["id"]
                continue
            if got != outcome[d["id"]]:
                viols.append({"property": "C05", "invariant": "event-outcome-depends-on-history", "schedule": si, "position": pos,
                              "detail": f"schedule {si} ({sched['kind']}) delivery {pos} of event {d['id']} (after event {prev}): "
                                        f"alone {outcome[d['id']]!r}  here {got!r}"})
                break
            if got[0] == "fault":
                seen_fault = True
                bump("fault:restart_after_faulting_event")
            prev = d["id"]
        else:
            # row conservation over the whole schedule
            exp_rows = sorted(r for d in dels if d["failed_retrieval"] is None and outcome[d["id"]][0] == "rows" for r in outcome[d["id"]][1])
            got_rows = sorted(r for d in dels if d["status"] == "OK" and d["failed_retrieval"] is None for r in d["rows"])
            if exp_rows != got_rows:
                viols.append({"property": "C05", "invariant": "row-conservation", "schedule": si,
                              "detail": f"schedule {si}: multiset of rows differs from the union of per-event outcomes"})
        if seen_fault:
            bump("reach:schedule_continued_after_fault")
        if viols:
            break
    if n_rows > 0:
        res["nontrivial"].append(fingerprint([case["query"]["shape"], case["backend"]]))


def _expected_triples(case):
    api = qgen.API[case["backend"]]
    occ = case["query"]["occurrences"]
    return api, {(o["type"], o["bank"]) for o in occ}, {(o["type"], o["bank"]) for o in occ if o["uncond"]}


def _split_api(s):
    api, typ, bank = s.split("|", 2)
    return api, typ, bank


def _c06(case, exe, work, res):
    viols, stats = res["violations"], res["stats"]

    def bump(k, n=1):
        stats[k] = stats.get(k, 0) + n

    rc, dels, segs, err = canonical(exe, case, work)
    if rc != 0 or len(dels) != UNIVERSE:
        bump("canonical_run_died")
        return
    api, allowed, required = _expected_triples(case)
    outcome = {d["id"]: outcome_of(d) for d in dels}
    # ---- (a) retrieval contract, monitored on every delivery
    for d, seg in zip(dels, segs):
        got = [_split_api(s) for s in d["retrievals"]]
        for a, t, bnk in got:
            if a == "contains":
                continue  # a presence query, only logged when the simulator denies it
            if not a.startswith(api):
                viols.append({"property": "C06", "invariant": "retrieval-contract",
                              "detail": f"event {d['id']}: retrieval through {a!r}, the {case['backend']} idiom is {api}"})
            if (t, bnk) not in allowed:
                viols.append({"property": "C06", "invariant": "retrieval-contract",
                              "detail": f"event {d['id']}: retrieved ({t}, {bnk!r}) which no e.<Collection>(bank) of the query asks for; "
                                        f"the query asks for {sorted(allowed)}"})
            if a.startswith("getByToken"):
                # token type must be the retrieved type
                tok_type = a[a.index("(") + 1:-1]
                if tok_type != t:
                    viols.append({"property": "C06", "invariant": "retrieval-contract",
                                  "detail": f"event {d['id']}: token declared for {tok_type} used to fetch {t}"})
        if d["status"] == "OK":
            # an occurrence inside the predicate applied to every element of an (unconditional, unfiltered) collection is
            # fetched once per element: count the fetches
            for o in case["query"]["occurrences"]:
                pe = o.get("per_element_of")
                if not pe:
                    continue
                n_outer = d["sizes"].get(f"{pe[0]}|{pe[1]}")
                if n_outer is None:
                    continue
                n_got = sum(1 for a2, t2, b2 in got if (t2, b2) == (o["type"], o["bank"]) and a2 != "contains")
                same = [pe[0], pe[1]] == [o["type"], o["bank"]]
                need = n_outer + (1 if same else 0)
                if n_got < need:
                    viols.append({"property": "C06", "invariant": "retrieval-contract",
                                  "detail": f"event {d['id']}: ({o['type']}, {o['bank']!r}) is asked for inside the predicate applied to each of the "
                                            f"{n_outer} elements of ({pe[0]}, {pe[1]!r}) but was fetched only {n_got} time(s) (at least {need} expected)"})
            missing = required - {(t, bnk) for _, t, bnk in got}
            if missing:
                viols.append({"property": "C06", "invariant": "retrieval-contract",
                              "detail": f"event {d['id']}: unconditional collection(s) {sorted(missing)} were never retrieved"})
        if case["backend"] == "cms_miniaod":
            cons = [tuple(c.split(" ", 1)[1].split("|", 1)) for c in seg["consumes"]]
            for c in cons:
                if c not in allowed:
                    viols.append({"property": "C06", "invariant": "retrieval-contract",
                                  "detail": f"constructor declares a token for {c} which the query does not ask for"})
            used = {a for a, _, _ in got}
            if len(set(used)) > len(cons):
                viols.append({"property": "C06", "invariant": "retrieval-contract", "detail": "more tokens used than declared"})
        bump("deliveries_monitored")
        bump("retrievals_monitored", len(got))
        if viols:
            return
    # ---- (b) every retrieval of sampled events failed in turn
    n_enum = 0
    for k in case["fail_events"]:
        base = next(d for d in dels if d["id"] == k)
        nret = len(base["retrievals"])
        idxs = range(nret) if case.get("only_fail") is None else [i for (ev, i) in case["only_fail"] if ev == k and i < nret]
        for idx in idxs:
            lines = [f"SEED {case['event_seed']}", "SEGMENT", f"EVENT {k} {idx}", f"EVENT {k}"]
            rc, out, err = build.run_schedule(exe, lines, work, tag=f"f{k}-{idx}")
            fd, _ = build.parse_output(out)
            n_enum += 1
            bump("fault:retrieval_failed_" + api)
            what = base["retrievals"][idx]
            if rc != 0:
                viols.append({"property": "C06", "invariant": "failed-retrieval-not-contained", "event": k, "index": idx,
                              "detail": f"event {k}, retrieval #{idx} ({what}) failed by the store: the job process died (rc={rc}) "
                                        f"instead of failing the event: {err[-300:]}"})
                return
            if len(fd) < 1 or fd[0]["failed_retrieval"] != idx:
                # the retrieval sequence changed under the fault before reaching idx: nothing was injected
                bump("fault_not_reached")
                continue
            f0 = fd[0]
            if f0["status"] == "OK" and case["backend"] != "atlas" and outcome[k][0] == "rows" and f0["rows"] == outcome[k][1]:
                # CMS: a failed fetch leaves an invalid handle, and only *using* it is an error. The generated job may fetch a
                # collection again whose value it then does not need (e.g. once per element of a loop while only the
                # first element's value is used): the event comes out exactly as it does when the store works, nothing
                # wrong was read. Anything else - other rows, missing rows - is still the violation.
                bump("reach:cms_failed_fetch_whose_result_is_not_used")
                continue
            if f0["status"] == "OK":
                viols.append({"property": "C06", "invariant": "failed-retrieval-not-contained", "event": k, "index": idx,
                              "detail": f"event {k}, retrieval #{idx} ({what}) failed by the store but the event was processed as if "
                                        f"nothing happened: rows {f0['rows']}"})
                return
            canon_rows = outcome[k][1] if outcome[k][0] == "rows" else (outcome[k][2] if len(outcome[k]) > 2 else [])
            if f0["rows"] and f0["rows"] != canon_rows[:len(f0["rows"])]:
                # a query that writes several rows per event may have written the rows of earlier objects before a later
                # object's collection is fetched; what is there must be a prefix of the event's rows, never anything else
                viols.append({"property": "C06", "invariant": "failed-retrieval-not-contained", "event": k, "index": idx,
                              "detail": f"event {k}, retrieval #{idx} ({what}) failed but the rows written ({f0['rows']}) are not a "
                                        f"prefix of the rows the event writes when the store works ({canon_rows})"})
                return
            if len(fd) < 2 or outcome_of(fd[1]) != outcome[k]:
                viols.append({"property": "C06", "invariant": "failed-retrieval-not-contained", "event": k, "index": idx,
                              "detail": f"after the failed retrieval a fresh instance does not reproduce the event's outcome: "
                                        f"{outcome_of(fd[1]) if len(fd) > 1 else None!r} vs {outcome[k]!r}"})
                return
            res["nontrivial"].append(fingerprint([case["query"]["shape"], case["backend"], idx]))
    bump("retrieval_failures_enumerated", n_enum)


RETRIEVAL_MARKERS = ("retrieve", "getByLabel", "getByToken", "Handle", "result", "evtStore", "consumes", "Container", "Collection")
FETCH_CODE = ("getByToken", "getByLabel", "evtStore()->retrieve", "EDGetTokenT", "consumes<", "Handle<")


def _undeclared_fetch_variable(case, err):
    """g++ stops at an identifier that was 'not declared in this scope' and the identifier is the variable that holds a
    fetched collection (the translator names it <collection name in lower case><number>): the job uses a collection
    at a place where it never asked the store for it."""
    import re
    m = re.search(r"[‘'](\w+?)(\d+)[’'] was not declared in this scope", err or "")
    if not m:
        return False
    names = {o["coll"].lower() for o in case["query"]["occurrences"]}
    return m.group(1) in names


def _build_only(case):
    work = tempfile.mkdtemp(prefix="n-", dir=_scratch)
    try:
        exe, status, err = translate_and_build(case, work)
        return [status, err]
    finally:
        shutil.rmtree(work, ignore_errors=True)


def _c06_uncompilable_after_history(case, err, res):
    """The package does not compile after a history. If the same query compiles in a fresh process and the compiler
    stops in the code that fetches a collection, the history changed how the collection is fetched.
    Runs in the pristine chunk worker: the history-free build is forked from a process that never translated."""
    from ..core import isolate
    c2 = copy.deepcopy(case)
    c2["pre"] = []
    status, err2 = isolate.call_isolated(_build_only, (c2,), timeout=120)
    res["stats"]["reach:rebuilt_without_history"] = 1
    if status == "ok" and any(m in (err or "") for m in RETRIEVAL_MARKERS):
        res["violations"].append({"property": "C06", "invariant": "retrieval-contract",
                                  "detail": f"after translating {[p['query']['steps'] for p in case['pre']]} in the same process the code that "
                                            f"fetches a collection no longer compiles ({err}); alone the same query compiles and runs"})


def execute(case):
    from ..core import isolate
    res = isolate.call_isolated(_execute_inner, (case,), timeout=CASE_TIMEOUT)
    if res.get("uncompilable_after_history"):
        _c06_uncompilable_after_history(case, res.pop("uncompilable_after_history"), res)
    return res


def _mix(x):
    M = (1 << 64) - 1
    x = (x + 0x9e3779b97f4a7c15) & M
    x = ((x ^ (x >> 30)) * 0xbf58476d1ce4e5b9) & M
    x = ((x ^ (x >> 27)) * 0x94d049bb133111eb) & M
    return x ^ (x >> 31)


def size_profile(event_seed):
    """the same choice simfw.h makes: which table of collection sizes the events of this run use"""
    k = _mix(event_seed ^ 0x5eedc0ffee) % 10
    return "usual_0_to_4" if k < 6 else ("sparse_0_to_2" if k < 8 else "dense_0_to_17")


def _execute_inner(case):
    work = tempfile.mkdtemp(prefix="c-", dir=_scratch)
    res = {"log": [], "violations": [], "stats": {}, "states": [], "nontrivial": []}
    res["stats"]["reach:collection_sizes_" + size_profile(case["event_seed"])] = 1
    # the stand-in store's memory model of this run (the same choice simfw.h makes from the event seed)
    recycle = _mix(case["event_seed"] ^ 0xadd7e55) % 10 < 3
    res["stats"]["reach:store_" + ("recycles_objects_in_place" if recycle else "poisons_and_retains_finished_events")] = 1
    try:
        exe, status, err = translate_and_build(case, work)
        res["stats"][status] = 1
        if case.get("pre"):
            res["stats"]["reach:translated_after_history"] = 1
        res["log"].append({"backend": case["backend"], "shape": case["query"]["shape"], "build": status, "err": err})
        if exe is None:
            if status == "uncompilable":
                res["stats"]["blocked:" + case["backend"]] = 1
                if case["prop"] == "C06" and (any(m in (err or "") for m in FETCH_CODE) or _undeclared_fetch_variable(case, err)):
                    # the statements that fetch a collection (or declare / initialise its token) are not C++:
                    # the job cannot ask the store for what the query names
                    res["violations"].append({"property": "C06", "invariant": "retrieval-contract",
                                              "detail": f"the generated code that fetches a collection does not compile: {err}"})
                elif case["prop"] == "C06" and case.get("pre"):
                    res["uncompilable_after_history"] = err
            return res
        res["states"].append(fingerprint([case["query"]["shape"], case["backend"]]))
        if case["prop"] == "C05":
            _c05(case, exe, work, res)
        else:
            _c06(case, exe, work, res)
        res["steps"] = res["stats"].get("deliveries", 0) + res["stats"].get("deliveries_monitored", 0) + \
            2 * res["stats"].get("retrieval_failures_enumerated", 0) + UNIVERSE
        return res
    finally:
        shutil.rmtree(work, ignore_errors=True)


# ------------------------------------------------------------------ shrink / signature / describe

def shrink(case, fails):
    c = copy.deepcopy(case)
    v = fails(c)
    if not v:
        return case
    if case["prop"] == "C05":
        si = v.get("schedule")
        if si is not None and si < len(c["schedules"]):
            c2 = copy.deepcopy(c)
            c2["schedules"] = [c["schedules"][si]]
            if fails(c2):
                c = c2
        # shrink the one schedule: flatten to a list of (segment break | [event, store-fault fraction or None])
        sched = c["schedules"][0]
        faults = sched.get("faults") or {}
        flat = []
        pos = 0
        for seg in sched["segments"]:
            flat.append("|")
            for k in seg:
                flat.append([k, faults.get(str(pos))])
                pos += 1

        def to_case(fl):
            segs, fl_faults, p = [], {}, 0
            for x in fl:
                if x == "|" or not segs:
                    segs.append([])
                if x != "|":
                    segs[-1].append(x[0])
                    if x[1] is not None:
                        fl_faults[str(p)] = x[1]
                    p += 1
            segs = [s_ for s_ in segs if s_]
            c3 = copy.deepcopy(c)
            kind = "per_process" if sched["kind"] == "per_process" else "store_faults" if fl_faults else "perm"
            c3["schedules"] = [{"kind": kind, "segments": segs, "faults": fl_faults}]
            return c3

        fl = ddmin_list(flat, lambda f: any(x != "|" for x in f) and fails(to_case(f)))
        c4 = to_case(fl)
        if fails(c4):
            c = c4
        # reduce the query: one column alone, without the event-level filter
        cols = c["query"].get("cols")
        if cols and len(c["query"]["steps"]) <= 2:
            for col in cols:
                c2 = copy.deepcopy(c)
                c2["query"]["steps"] = [["Select", f"lambda e: {col}"]]
                c2["query"]["cols"] = [col]
                c2["query"]["shape"] = "reduced:" + c["query"]["shape"]
                if fails(c2):
                    c = c2
                    break
    else:
        if v.get("event") is not None:
            c2 = copy.deepcopy(c)
            c2["fail_events"] = [v["event"]]
            c2["only_fail"] = [[v["event"], v["index"]]]
            if fails(c2):
                c = c2
        else:
            c2 = copy.deepcopy(c)
            c2["fail_events"] = []
            if fails(c2):
                c = c2
            cols = c["query"].get("cols")
            if cols and len(cols) > 1 and len(c["query"]["steps"]) == 1:
                for col in cols:
                    c2 = copy.deepcopy(c)
                    c2["query"]["steps"] = [["Select", f"lambda e: {col}"]]
                    c2["query"]["cols"] = [col]
                    # occurrences of the reduced query: those whose text appears in the kept column
                    c2["query"]["occurrences"] = [o for o in c["query"]["occurrences"] if f'.{o["coll"]}("{o["bank"]}")' in col]
                    c2["query"]["shape"] = "reduced:" + c["query"]["shape"]
                    if fails(c2):
                        c = c2
                        break
    if c.get("pre"):
        c2 = copy.deepcopy(c)
        c2["pre"] = []
        if fails(c2):
            c = c2
        else:
            for j in range(len(c["pre"])):
                c2 = copy.deepcopy(c)
                del c2["pre"][j]
                if c2["pre"] != c["pre"] and fails(c2):
                    c = c2
                    break
    # metadata / wire simplification
    if c["query"]["wire"] != "ast":
        c2 = copy.deepcopy(c)
        c2["query"]["wire"] = "ast"
        if fails(c2):
            c = c2
    return c


def signature(case, v):
    if qgen.has_agg_over_selectmany(case["query"]["steps"]) and v["invariant"] in ("event-outcome-depends-on-history", "retrieval-contract"):
        # the class of a recorded finding (known_findings.json): identified by the construct, on any backend
        return f"{case['prop']}:{v['invariant']}:aggregate-over-SelectMany-in-expression"
    return f"{case['prop']}:{v['invariant']}:{case['backend']}:{case['query']['shape']}"


def describe(case):
    d = {"backend": case["backend"], "steps": case["query"]["steps"], "metadata": [m for _, m in case["query"]["md"]],
         "shape": case["query"]["shape"],
         "translated_before": [{"backend": p["backend"], "steps": p["query"]["steps"], "same_executor": p["same_executor"]}
                               for p in case.get("pre") or []]}
    if case["prop"] == "C05":
        d["schedules"] = [{"kind": s["kind"], "segments": [len(x) for x in s["segments"]]} for s in case["schedules"][:4]]
    else:
        d["occurrences"] = case["query"]["occurrences"]
        d["fail_events"] = case["fail_events"]
    return d


def evidence(prop, agg):
    st = agg.stats
    return {"queries_generated": agg.n, "translated_and_compiled": st.get("ok", 0), "rejected_by_translator": st.get("rejected", 0),
            "blocked_uncompilable": st.get("uncompilable", 0),
            "blocked_by_backend": {b: st.get("blocked:" + b, 0) for b in BACKENDS},
            "explanation": "uncompilable packages are evidence against C02's second clause, which this family does not decide; they are "
                           "tallied here and otherwise ignored by the C05/C06 oracles"}


def post_check(prop, agg):
    """Coverage guard: on the unchanged tree every generated query that the translator accepts compiles against the
    stand-in. If a large part of a backend's jobs does not compile, the check has lost its subject for that backend and
    must not report a pass."""
    st = agg.stats
    for b in BACKENDS:
        blocked = st.get("blocked:" + b, 0)
        if blocked >= 10 and blocked > 0.3 * max(1, st.get("ok", 0)) / 3:
            return (f"{blocked} generated {b} packages do not compile against the stand-in frameworks (0 on the reference tree): "
                    f"the check cannot judge {prop} for this backend; first compiler errors are in the log of each run")
    return None
