"""Compile a rendered package against the stand-in frameworks."""
import os
import re
import shutil
import subprocess

HERE = os.path.dirname(os.path.abspath(__file__))
STANDIN = os.path.join(HERE, "standin")
CXX = "g++"
BASE_FLAGS = ["-std=c++17", "-O0", "-w", "-fno-diagnostics-color"]
SAN_FLAGS = ["-fsanitize=address,undefined", "-fno-omit-frame-pointer", "-fno-sanitize-recover=undefined"]

_INC = re.compile(r'^\s*#\s*include\s*[<"]([^>"]+)[>"]', re.M)
MAIN_SOURCE = {"atlas": "query.cxx", "cms_aod": "Analyzer.cc", "cms_miniaod": "Analyzer.cc"}


def setup_toolchain(scratch, sanitize=False):
    """Compile the driver once (and a precompiled header for the stand-in). Returns the toolchain dict."""
    tc = os.path.join(scratch, "toolchain-san" if sanitize else "toolchain")
    os.makedirs(tc, exist_ok=True)
    flags = BASE_FLAGS + (SAN_FLAGS if sanitize else [])
    shutil.copy(os.path.join(STANDIN, "simfw.h"), os.path.join(tc, "simfw.h"))
    r = subprocess.run([CXX] + flags + ["-c", os.path.join(STANDIN, "driver.cc"), "-I", tc, "-o", os.path.join(tc, "driver.o")],
                       capture_output=True, text=True)
    if r.returncode != 0:
        raise RuntimeError("driver does not compile:\n" + r.stderr[:3000])
    r = subprocess.run([CXX] + flags + ["-x", "c++-header", os.path.join(tc, "simfw.h"), "-o", os.path.join(tc, "simfw.h.gch")],
                       capture_output=True, text=True)
    if r.returncode != 0:
        raise RuntimeError("stand-in header does not compile:\n" + r.stderr[:3000])
    return {"dir": tc, "flags": flags}


def _is_std_header(path):
    return "/" not in path and "." not in path


def build_job(tc, backend, pkg_dir, out_dir, extra_decls=""):
    """Returns (binary path | None, first compiler error | None)."""
    inc = os.path.join(out_dir, "inc")
    os.makedirs(inc, exist_ok=True)
    main_src = os.path.join(pkg_dir, MAIN_SOURCE[backend])
    with open(main_src) as f:
        src = f.read()
    texts = [src]
    if backend == "atlas":
        with open(os.path.join(pkg_dir, "query.h")) as f:
            hdr = f.read()
        texts.append(hdr)
        os.makedirs(os.path.join(inc, "analysis"), exist_ok=True)
        with open(os.path.join(inc, "analysis", "query.h"), "w") as f:
            f.write(hdr)
    for t in texts:
        for path in _INC.findall(t):
            if _is_std_header(path) or path == "analysis/query.h":
                continue
            dst = os.path.join(inc, path)
            if not os.path.exists(dst):
                os.makedirs(os.path.dirname(dst), exist_ok=True)
                with open(dst, "w") as f:
                    f.write('#include "simfw.h"\n')
    tu = os.path.join(out_dir, "job.cc")
    with open(tu, "w") as f:
        f.write(extra_decls)
        f.write(f'#line 1 "{MAIN_SOURCE[backend]}"\n')
        f.write(src)
        if backend == "atlas":
            f.write('\nextern "C" simfw::Job* simfw_make_job() { return new simfw::AtlasJob<query>(); }\n')
    exe = os.path.join(out_dir, "job")
    cmd = [CXX] + tc["flags"] + ["-include", "simfw.h", "-I", tc["dir"], "-I", inc, tu, os.path.join(tc["dir"], "driver.o"), "-o", exe]
    r = subprocess.run(cmd, capture_output=True, text=True)
    if r.returncode != 0:
        lines = r.stderr.split("\n")
        errs = [k for k, ln in enumerate(lines) if "error" in ln]
        if errs:
            k = errs[0]
            # the message plus the source line g++ quotes under it
            return None, " || ".join(x.strip() for x in lines[k:k + 2])[:500]
        return None, r.stderr[:300]
    return exe, None


def run_schedule(exe, schedule_lines, work_dir, tag="s", timeout=60, env=None):
    """Play one schedule in one OS process. Returns (returncode, stdout)."""
    p = os.path.join(work_dir, f"{tag}.sched")
    with open(p, "w") as f:
        f.write("\n".join(schedule_lines) + "\n")
    e = dict(os.environ)
    e["ASAN_OPTIONS"] = "detect_leaks=0:abort_on_error=0:exitcode=99"
    e["UBSAN_OPTIONS"] = "halt_on_error=1:exitcode=98:print_stacktrace=0"
    if env:
        e.update(env)
    try:
        r = subprocess.run([exe, p], capture_output=True, text=True, timeout=timeout, env=e, errors="replace")
        return r.returncode, r.stdout, r.stderr[-2000:]
    except subprocess.TimeoutExpired as ex:
        return "timeout", (ex.stdout or b"").decode(errors="replace") if isinstance(ex.stdout, bytes) else (ex.stdout or ""), ""


def parse_output(stdout):
    """-> list of deliveries: {"id", "status", "rows": [...], "retrievals": [...], "segment": n}, plus per-segment info."""
    deliveries = []
    segments = []
    cur = None
    seg = -1
    for ln in stdout.split("\n"):
        if ln == "SEGMENT":
            seg += 1
            segments.append({"consumes": [], "branches": [], "init": "ok"})
        elif ln.startswith("CONSUMES ") and segments:
            segments[-1]["consumes"].append(ln[9:])
        elif ln.startswith("BRANCH ") and segments:
            segments[-1]["branches"].append(ln[7:])
        elif ln.startswith("INIT ") and segments:
            segments[-1]["init"] = ln[5:]
        elif ln.startswith("BEGIN "):
            cur = {"id": int(ln[6:]), "status": None, "rows": [], "retrievals": [], "sizes": {}, "failed_retrieval": None, "segment": seg}
        elif cur is not None and ln.startswith("ROW "):
            cur["rows"].append(ln[4:])
        elif cur is not None and ln.startswith("RETRIEVE "):
            cur["retrievals"].append(ln.split(" ", 2)[2])
        elif cur is not None and ln.startswith("DELIVERED "):
            key, sz = ln[10:].rsplit(" size=", 1)
            cur["sizes"][key] = int(sz)
        elif cur is not None and ln.startswith("FAILED-RETRIEVAL "):
            cur["failed_retrieval"] = int(ln.split()[1])
        elif cur is not None and ln.startswith("END "):
            parts = ln.split(" ", 4)
            cur["status"] = parts[2]
            cur["detail"] = parts[4] if len(parts) > 4 else ""
            deliveries.append(cur)
            cur = None
    if cur is not None:
        cur["status"] = "DIED"
        deliveries.append(cur)
    return deliveries, segments
