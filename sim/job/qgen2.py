"""Second query generator: a fully compositional typed grammar (every position may hold any well-typed
sub-expression, up to a depth budget). The first generator (qgen.py) writes hand-picked idioms with a bias;
this one makes no choice of idiom, so that combinations nobody thought of appear with some probability.

  num   := const | o.m() | num op num | abs(num) | fn(num) | (num if bool else num) | (lambda n: num)(num)
           | seq_num.Agg() | seq_obj.Count() | seq_obj.First().m() | seq_num.First()
  bool  := num cmp num | bool and bool | bool or bool | not bool | o.isGood()
  seq_obj := e.Coll(bank) | seq_obj.Where(lambda o: bool) | o.subs() | seq_obj.SelectMany(lambda o: seq_obj)
  seq_num := seq_obj.Select(lambda o: num) | o.cvals() | seq_num.Where(lambda v: bool) | seq_num.Select(lambda v: num)
           | seq_obj.SelectMany(lambda o: seq_num) | pair_vec(num)
  column  := num | seq_num | seq_obj.Select(lambda o: seq_num)
  int   := 0..3 | i | o.nTrk() | o.charge() | seq.Count() | (int + int)
  seq_num |= Range(int, int + span) [.Select(lambda i: num) | .Where(lambda i: bool)]      span := 0..3 | seq.Count()
  num   |= seq2d.Count() | seq2d.Aggregate(seed, f)      seq2d := seq_obj.Select(lambda o: seq_num)      seq_num |= seq2d.First()
  num   |= o.cvals()[int] | e.Coll(bank)[int].m() | o.subs()[int].m()          (indexing: a loud fault past the end)

The environment knows which variables are in scope: the event `e` (inside an event lambda), objects, numbers.
"""
from . import qgen

FLOATS = qgen.FLOATS


class G2:
    def __init__(self, rng, backend):
        self.r = rng
        self.b = backend
        self.md = {}
        self.occ = []
        self.n = 0
        self.uncond = True
        self.replaced = qgen.choose_replacement(self.md, rng, backend)

    def var(self, p):
        self.n += 1
        return f"{p}{self.n}"

    def declare(self, etype, method):
        key = (etype, method)
        if key not in self.md:
            d = {"metadata_type": "add_method_type_info", "type_string": etype, "method_name": method}
            if method == "subs":
                d["return_type_element"] = etype
            else:
                d.update(qgen.DECLARED[method])
            self.md[key] = d

    def use_func(self, name):
        self.md[("fn", name)] = qgen.USER_FUNCS[name]

    # env: {"e": bool, "objs": [(var, etype)], "nums": [var]}
    def num(self, env, d):
        r = self.r
        opts = [("const", 2)]
        if env["nums"]:
            opts.append(("numvar", 5))
        if env["objs"]:
            opts += [("getter", 8), ("intgetter", 2), ("floatgetter", 2)]
        if d > 0:
            opts += [("arith", 3), ("abs", 1), ("fn", 1), ("ifexp", 2), ("let", 1), ("div", 1), ("intmod", 1), ("pow", 1), ("neg", 1)]
            if env["objs"]:
                opts += [("index_vec", 1)]
            if env["e"] or env["objs"]:
                opts += [("index_obj", 1)]
            if env["e"] or env["objs"]:
                opts += [("agg", 4), ("count", 3), ("first_obj", 2), ("first_num", 1), ("count2d", 1)]
        k = qgen.weighted_choice(r, opts)
        if k == "const":
            return r.choice(FLOATS)
        if k == "numvar":
            return r.choice(env["nums"])
        if k == "getter":
            o, et = r.choice(env["objs"])
            if et == "xAOD::Jet" and r.random() < 0.15:
                return f"{o}.getAttributeFloat('{r.choice(['emf', 'Width'])}')"
            return f"{o}.{r.choice(qgen.DOUBLE_METHODS)}()"
        if k == "floatgetter":
            o, et = r.choice(env["objs"])
            m = r.choice(["fpt", "fm"])
            self.declare(et, m)
            return f"{o}.{m}()"
        if k == "intgetter":
            o, et = r.choice(env["objs"])
            m = r.choice(["nTrk", "charge"])
            self.declare(et, m)
            return f"{o}.{m}()"
        if k == "index_vec":
            o, et = r.choice(env["objs"])
            m = r.choice(["cvals", "ivals"])
            self.declare(et, m)
            return f"{o}.{m}()[{self.integer(env, d - 1)}]"
        if k == "index_obj":
            # indexing works on a collection as fetched / returned, not on a derived sequence
            s, et = self.seq_obj(env, 0)
            return f"{s}[{self.integer(env, d - 1)}].{r.choice(qgen.DOUBLE_METHODS)}()"
        if k == "arith":
            return f"({self.num(env, d - 1)} {r.choice(['+', '-', '*'])} {self.num(env, d - 1)})"
        if k == "div":
            return f"({self.num(env, d - 1)} / {self.num(env, d - 1)})"
        if k == "intmod":
            return f"({self.integer(env, d - 1)} % {r.choice(['2', '3'])})"
        if k == "pow":
            return f"({self.num(env, d - 1)} ** 2)"
        if k == "neg":
            return f"(-{self.num(env, d - 1)})"
        if k == "abs":
            return f"abs({self.num(env, d - 1)})"
        if k == "fn":
            f = r.choice(["twice_it", "scale_it", "sin", "DeltaR", "evt_weight"])
            if f == "evt_weight":
                self.use_func(f)
                return f"evt_weight({r.choice(FLOATS)})"
            if f == "twice_it":
                self.use_func(f)
                return f"twice_it({self.num(env, d - 1)})"
            if f == "scale_it":
                self.use_func(f)
                return f"scale_it({self.num(env, d - 1)}, {self.num(env, 0)})"
            if f == "sin":
                return f"sin({self.num(env, d - 1)})"
            return f"DeltaR({self.num(env, 0)}, {self.num(env, 0)}, {self.num(env, 0)}, {self.num(env, 0)})"
        if k == "let":
            # a value bound to a lambda argument and used wherever the body likes (several times, in any block)
            was = self.uncond
            self.uncond = False  # evaluated where the body first uses it, if at all
            x = self.num(env, d - 1)
            self.uncond = was
            v = self.var("n")
            return f"(lambda {v}: {self.num(self.push_num(env, v), d - 1)})({x})"
        if k == "ifexp":
            was = self.uncond
            c = self.boolean(env, d - 1)
            self.uncond = False
            a, b2 = self.num(env, d - 1), self.num(env, d - 1)
            if r.random() < 0.3:
                # a ladder: the else arm is a conditional itself
                b2 = f"{b2} if {self.boolean(env, max(0, d - 2))} else {self.num(env, 0)}"
            self.uncond = was
            return f"({a} if {c} else {b2})"
        if k == "agg":
            s = self.seq_num(env, d - 1)
            agg = r.choice(["Sum", "Max", "Min", "Count", "Aggregate"])
            if agg == "Aggregate":
                a, v = self.var("a"), self.var("x")
                body = r.choice([f"{a} + {v}", f"{a} + {v}", f"{a} * {v}", f"{a} + 1", f"{a} + {v} * {v}", f"{v}"])
                return f"{s}.Aggregate({r.choice(['0.0', '0.0', '1.0', '0', '-1.0'])}, lambda {a}, {v}: {body})"
            return f"{s}.{agg}()"
        if k == "count":
            return f"{self.seq_obj(env, d - 1)[0]}.Count()"
        if k == "count2d":
            # an aggregate over a sequence of sequences: it counts / folds the OUTER elements
            s2 = self.seq2d(env, d - 1)
            if r.random() < 0.7:
                return f"{s2}.Count()"
            a, v = self.var("a"), self.var("x")
            return f"{s2}.Aggregate({r.choice(['0', '0.0', '1'])}, lambda {a}, {v}: {a} + {r.choice(['1', '2.0', v + '.Count()'])})"
        if k == "first_obj":
            s, et = self.seq_obj(env, d - 1)
            return f"{s}.First().{r.choice(qgen.DOUBLE_METHODS)}()"
        return f"{self.seq_num(env, d - 1)}.First()"

    def integer(self, env, d):
        r = self.r
        opts = [("iconst", 3)]
        if env.get("ints"):
            opts.append(("intvar", 5))
        if env["objs"]:
            opts.append(("intgetter", 4))
        if d > 0:
            opts.append(("iarith", 1))
            if env["e"] or env["objs"]:
                opts.append(("count", 3))
        k = qgen.weighted_choice(r, opts)
        if k == "iconst":
            return r.choice(["0", "0", "1", "2", "3"])
        if k == "intvar":
            return r.choice(env["ints"])
        if k == "intgetter":
            o, et = r.choice(env["objs"])
            m = r.choice(["nTrk", "charge"])
            self.declare(et, m)
            return f"{o}.{m}()"
        if k == "iarith":
            return f"({self.integer(env, d - 1)} + {self.integer(env, d - 1)})"
        return f"{self.seq_obj(env, d - 1)[0]}.Count()"

    def range_(self, env, d):
        """Range(lo, lo + span): span is never negative (a negative length is undefined in the generated C++)"""
        r = self.r
        lo = self.integer(env, d)
        if (env["e"] or env["objs"]) and d > 0 and r.random() < 0.35:
            span = f"{self.seq_obj(env, 0)[0]}.Count()"
        else:
            span = r.choice(["0", "1", "2", "2", "3"])
        return f"Range({lo}, {lo} + {span})" if lo != "0" or r.random() < 0.3 else f"Range(0, {span})"

    def boolean(self, env, d):
        r = self.r
        opts = [("cmp", 6)]
        if env["objs"]:
            opts.append(("isgood", 1))
        if d > 0:
            opts += [("and", 2), ("or", 2), ("not", 1)]
        k = qgen.weighted_choice(r, opts)
        if k == "cmp":
            return f"{self.num(env, d)} {r.choice(['>', '<', '>=', '<=', '!=', '=='])} {self.num(env, 0)}"
        if k == "isgood":
            o, et = r.choice(env["objs"])
            self.declare(et, "isGood")
            return f"{o}.isGood()"
        if k == "not":
            return f"(not ({self.boolean(env, d - 1)}))"
        was = self.uncond
        a = self.boolean(env, d - 1)
        self.uncond = False
        b2 = self.boolean(env, d - 1)
        self.uncond = was
        return f"(({a}) {k} ({b2}))"

    def seq_obj(self, env, d):
        r = self.r
        opts = []
        if env["e"]:
            opts.append(("coll", 8))
        if env["objs"]:
            opts.append(("subs", 2 if env["e"] else 8))
        if not opts:
            raise _NoSource()
        if d > 0:
            opts += [("where", 4), ("selectmany", 1)]
        k = qgen.weighted_choice(r, opts)
        if k == "coll":
            names = sorted(qgen.COLLECTIONS[self.b])
            name = r.choice(names)
            c = qgen.COLLECTIONS[self.b][name]
            bank = r.choice(c["banks"]) if r.random() > 0.1 else "prod"
            prev = [o["bank"] for o in self.occ if o["coll"] != name]
            if prev and r.random() < 0.15:
                bank = r.choice(prev)  # deliberately the bank name another collection of this query already uses
            if r.random() < qgen.P_ODD_BANK or (any(":" in o["bank"] for o in self.occ) and r.random() < 0.8):
                bank = qgen.odd_bank(r, name, bank, self.occ)
            call = name
            if name in self.replaced:
                c = dict(c, ctype=self.replaced[name][0], etype=self.replaced[name][1])
            elif r.random() < qgen.P_DECL:
                call = qgen.declare_collection(self.md, r, self.b, name)
            self.occ.append({"coll": call, "bank": bank, "type": c["ctype"], "uncond": self.uncond and not env["objs"] and not env["nums"]})
            return f'e.{call}("{bank}")', c["etype"]
        if k == "subs":
            cands = [(o, et) for o, et in env["objs"] if not o.startswith("sub")]
            if not cands:
                if env["e"]:
                    return self.seq_obj(dict(env, objs=[]), 0)
                raise _NoSource()
            o, et = r.choice(cands)
            self.declare(et, "subs")
            return f"{o}.subs()", et
        if k == "where":
            s, et = self.seq_obj(env, d - 1)
            v = self.var("sub" if ".subs()" in s else "w")
            was = self.uncond
            self.uncond = False
            c = self.boolean(self.push_obj(env, v, et), d - 1)
            self.uncond = was
            return f"{s}.Where(lambda {v}: {c})", et
        s, et = self.seq_obj(env, d - 1)
        v = self.var("sub" if ".subs()" in s else "m")
        was = self.uncond
        self.uncond = False
        s2, et2 = self.seq_obj(self.push_obj(env, v, et), d - 1)
        self.uncond = was
        return f"{s}.SelectMany(lambda {v}: {s2})", et2

    def seq_num(self, env, d):
        r = self.r
        opts = []
        if env["e"] or env["objs"]:
            opts.append(("select", 8))
        if env["objs"]:
            opts.append(("member", 4))
        if not opts:
            return f"pair_vec({self._pv(env)})" if r.random() < 0.5 else self.range_(env, 0)
        if d > 0:
            opts += [("where", 2), ("select_num", 2), ("selectmany", 1), ("pair_vec", 1), ("range", 2), ("range_select", 2), ("range_where", 1)]
            if env["e"] or env["objs"]:
                opts.append(("first_of_2d", 1))
        k = qgen.weighted_choice(r, opts)
        if k == "first_of_2d":
            return f"{self.seq2d(env, d - 1)}.First()"
        if k == "range":
            return self.range_(env, d - 1)
        if k in ("range_select", "range_where"):
            rg = self.range_(env, d - 1)
            v = self.var("i")
            env2 = dict(self.push_num(env, v), ints=env.get("ints", []) + [v])
            if k == "range_select":
                return f"{rg}.Select(lambda {v}: {self.num(env2, d - 1)})"
            return f"{rg}.Where(lambda {v}: {self.boolean(env2, d - 1)})"
        if k == "select":
            s, et = self.seq_obj(env, d)
            v = self.var("sub" if ".subs()" in s else "o")
            was = self.uncond
            self.uncond = False
            x = self.num(self.push_obj(env, v, et), max(0, d - 1))
            self.uncond = was
            return f"{s}.Select(lambda {v}: {x})"
        if k == "member":
            o, et = r.choice(env["objs"])
            m = r.choice(["cvals", "ivals"])
            self.declare(et, m)
            return f"{o}.{m}()"
        if k == "where":
            s = self.seq_num(env, d - 1)
            v = self.var("v")
            return f"{s}.Where(lambda {v}: {self.boolean(self.push_num(env, v), d - 1)})"
        if k == "select_num":
            s = self.seq_num(env, d - 1)
            v = self.var("v")
            return f"{s}.Select(lambda {v}: {self.num(self.push_num(env, v), d - 1)})"
        if k == "selectmany":
            s, et = self.seq_obj(env, d - 1)
            v = self.var("sub" if ".subs()" in s else "m")
            was = self.uncond
            self.uncond = False
            inner = self.seq_num(self.push_obj(env, v, et), d - 1)
            self.uncond = was
            return f"{s}.SelectMany(lambda {v}: {inner})"
        return f"pair_vec({self._pv(env)})"

    def seq2d(self, env, d):
        s, et = self.seq_obj(env, max(0, d))
        v = self.var("sub" if ".subs()" in s else "o")
        was = self.uncond
        self.uncond = False
        inner = self.seq_num(self.push_obj(env, v, et), max(0, d))
        self.uncond = was
        return f"{s}.Select(lambda {v}: {inner})"

    def _pv(self, env):
        self.use_func("pair_vec")
        return self.num(env, 0)

    @staticmethod
    def push_obj(env, v, et):
        return {"e": env["e"], "objs": env["objs"] + [(v, et)], "nums": env["nums"], "ints": env.get("ints", [])}

    @staticmethod
    def push_num(env, v):
        return {"e": env["e"], "objs": env["objs"], "nums": env["nums"] + [v], "ints": env.get("ints", [])}

    def column(self, env, d):
        k = qgen.weighted_choice(self.r, [("num", 8), ("seq", 8), ("seq2", 4), ("seq3", 1), ("bool", 1), ("boolseq", 1)])
        if k == "num":
            return self.num(env, d)
        if k == "bool":
            return self.boolean(env, d)
        if k == "boolseq":
            s, et = self.seq_obj(env, max(0, d - 1))
            v = self.var("sub" if ".subs()" in s else "o")
            was = self.uncond
            self.uncond = False
            c = self.boolean(self.push_obj(env, v, et), max(0, d - 1))
            self.uncond = was
            return f"{s}.Select(lambda {v}: {c})"
        if k == "seq":
            return self.seq_num(env, d)
        if k == "seq3":
            # a 3-D column: per object, per sub-object, a vector
            s, et = self.seq_obj(dict(env, objs=[]), max(0, d - 1))
            v, w = self.var("o"), self.var("sub")
            self.declare(et, "subs")
            was = self.uncond
            self.uncond = False
            inner = self.seq_num(self.push_obj(self.push_obj(env, v, et), w, et), 0)
            self.uncond = was
            return f"{s}.Select(lambda {v}: {v}.subs().Select(lambda {w}: {inner}))"
        s, et = self.seq_obj(env, max(0, d - 1))
        v = self.var("sub" if ".subs()" in s else "o")
        was = self.uncond
        self.uncond = False
        inner = self.seq_num(self.push_obj(env, v, et), max(0, d - 1))
        self.uncond = was
        return f"{s}.Select(lambda {v}: {inner})"

    def query(self):
        r = self.r
        d = r.choice([1, 2, 2, 3])
        env = {"e": True, "objs": [], "nums": []}
        steps = []
        if r.random() < 0.25:
            steps.append(["Where", f"lambda e: {self.boolean(env, r.choice([1, 2, 2]))}"])
            self.uncond = False
        form = r.choice(["single", "tuple", "tuple", "dict", "dict", "rows", "rows", "list", "two_step", "two_step", "value_rows"])
        cols = None
        if form == "value_rows":
            # step 1 computes a number of the event, step 2 makes rows out of a sequence that depends on it and hands it on
            x = self.num(env, max(1, d - 1))
            n = self.var("n")
            steps.append(["Select", f"lambda e: {x}"])
            nenv = {"e": False, "objs": [], "nums": [n], "ints": []}
            sq = self.seq_num(nenv, max(1, d - 1))
            v = self.var("v")
            venv = self.push_num(nenv, v)
            flt = f".Where(lambda {v}: {self.boolean(venv, 0)})" if r.random() < 0.6 else ""
            v2 = self.var("v")
            venv2 = self.push_num(nenv, v2)
            cs = [self.num(venv2, max(0, d - 2)) for _ in range(r.choice([1, 2]))] + [n]
            steps.append(["SelectMany", f"lambda {n}: {sq}{flt}.Select(lambda {v2}: ({', '.join(cs)}))"])
            for o in self.occ:
                o["uncond"] = False
        elif form == "two_step":
            # plumbing: a first Select collects sequences and numbers in a tuple or dict, an optional Where filters on them,
            # a second Select builds the columns from the parts (every part may be used several times or not at all)
            n = r.choice([2, 2, 3])
            parts = []
            for _ in range(n):
                if r.random() < 0.65:
                    sq, et = self.seq_obj(env, max(0, d - 1))
                    parts.append(("seq", sq, et))
                else:
                    parts.append(("num", self.num(env, max(0, d - 1)), None))
            as_dict = r.random() < 0.4
            keys = [f"k{i}" for i in range(n)]
            if as_dict:
                steps.append(["Select", "lambda e: {" + ", ".join(f"'{k}': {p[1]}" for k, p in zip(keys, parts)) + "}"])
            else:
                steps.append(["Select", f"lambda e: ({', '.join(p[1] for p in parts)})"])
            t = self.var("t")
            acc = (lambda i: f"{t}.{keys[i]}" if r.random() < 0.5 else f"{t}['{keys[i]}']") if as_dict else (lambda i: f"{t}[{i}]")
            # evaluation is lazy: a part is computed where (and if) the second step uses it
            for o in self.occ:
                o["uncond"] = False

            def use(i, depth):
                kind, _, et = parts[i]
                if kind == "num":
                    return acc(i) if r.random() < 0.6 else f"({acc(i)} {r.choice(['+', '*', '-'])} {r.choice(FLOATS)})"
                v = self.var("o")
                oenv = {"e": False, "objs": [(v, et)], "nums": [], "ints": []}
                kk = qgen.weighted_choice(r, [("vec", 5), ("count", 2), ("agg", 2), ("first", 1), ("vec2", 1)])
                if kk == "vec":
                    return f"{acc(i)}.Select(lambda {v}: {self.num(oenv, depth)})"
                if kk == "count":
                    return f"{acc(i)}.Count()"
                if kk == "agg":
                    return f"{acc(i)}.Select(lambda {v}: {self.num(oenv, depth)}).{r.choice(['Sum', 'Max', 'Min'])}()"
                if kk == "first":
                    return f"{acc(i)}.First().{r.choice(qgen.DOUBLE_METHODS)}()"
                return f"{acc(i)}.Select(lambda {v}: {self.seq_num(oenv, depth)})"

            if r.random() < 0.3:
                i = r.randrange(n)
                cond = f"{acc(i)} > {r.choice(FLOATS)}" if parts[i][0] == "num" else f"{acc(i)}.Count() {r.choice(['> 0', '> 1', '== 0'])}"
                steps.append(["Where", f"lambda {t}: {cond}"])
                t = self.var("t")
            m = r.choice([1, 2, 3])
            cols2 = [use(r.randrange(n), max(0, d - 1)) for _ in range(m)]
            if m == 1:
                steps.append(["Select", f"lambda {t}: {cols2[0]}"])
            elif r.random() < 0.5:
                steps.append(["Select", f"lambda {t}: ({', '.join(cols2)})"])
            else:
                steps.append(["Select", f"lambda {t}: " + "{" + ", ".join(f"'c{i}': {c}" for i, c in enumerate(cols2)) + "}"])
        elif form == "rows":
            s, et = self.seq_obj(env, d - 1)
            steps.append(["SelectMany", f"lambda e: {s}"])
            self.uncond = False
            v = self.var("o")
            oenv = {"e": False, "objs": [(v, et)], "nums": []}
            if r.random() < 0.3:
                # a filter between the two steps, on the same objects the columns are computed from
                steps.append(["Where", f"lambda {v}: {self.num(oenv, max(0, d - 2))} {r.choice(['>', '<', '>=', '!='])} {r.choice(FLOATS)}"])
                v2 = self.var("o")
                oenv = {"e": False, "objs": [(v2, et)], "nums": []}
                v = v2
            n = r.choice([1, 2, 3])
            cs = [self.num(oenv, d - 1) for _ in range(n)]
            if r.random() < 0.3:
                cs.append(cs[0] if r.random() < 0.5 else f"({cs[0]} * 2.0)")   # the same sub-expression in two columns
                n += 1
            steps.append(["Select", f"lambda {v}: {cs[0]}" if n == 1 else f"lambda {v}: ({', '.join(cs)})"])
        else:
            n = 1 if form == "single" else r.choice([2, 3])
            cols = [self.column(env, d) for _ in range(n)]
            if n > 1 and r.random() < 0.2:
                cols.append(cols[0])   # the same expression as two columns (one more column, nothing is dropped)
            if form == "single":
                steps.append(["Select", f"lambda e: {cols[0]}"])
            elif form == "tuple":
                steps.append(["Select", f"lambda e: ({', '.join(cols)})"])
            elif form == "list":
                steps.append(["Select", f"lambda e: [{', '.join(cols)}]"])
            else:
                steps.append(["Select", "lambda e: {" + ", ".join(f"'c{i}': {c}" for i, c in enumerate(cols)) + "}"])
        md = [[0, m] for _, m in sorted(self.md.items(), key=lambda kv: repr(kv[0]))]
        import hashlib
        import re
        skel = re.sub(r"\b[a-z]+\d+\b", "v", " ".join(t for _, t in steps))   # variable names
        skel = re.sub(r'"[^"]*"', '"b"', skel)                                    # bank names
        skel = re.sub(r"-?\d+\.\d+|\b\d+\b", "n", skel)                     # constants
        return {"backend": self.b, "steps": steps, "md": md, "wire": "qastle" if r.random() < 0.2 else "ast",
                "occurrences": self.occ, "shape": f"g2:{form}:d{d}:" + hashlib.sha256(skel.encode()).hexdigest()[:10], "cols": cols}


class _NoSource(Exception):
    pass


def generate(rng, backend):
    for _ in range(20):
        try:
            return G2(rng, backend).query()
        except _NoSource:
            continue
    return qgen.generate(rng, backend)
