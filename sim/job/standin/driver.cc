// The simulated framework: plays a schedule (job instances, event order, failing retrievals)
// against the generated job. One process plays one schedule file.
//
// schedule file:   SEED <n>
//                  SEGMENT                     new job instance (construct + initialise)
//                  EVENT <id> [<fail_idx>]     deliver event <id>; optionally fail its <fail_idx>-th retrieval
#include "simfw.h"

#include <csignal>
#include <fstream>
#include <iostream>
#include <sstream>

namespace simfw {
Sim& sim() { static Sim s; return s; }
ProductCache& products() { static ProductCache p; return p; }
}  // namespace simfw

extern "C" simfw::Job* simfw_make_job();

static simfw::Job* new_instance() {
  simfw::sim().tokens.clear();
  std::printf("SEGMENT\n");
  simfw::Job* j = nullptr;
  try {
    j = simfw_make_job();
    if (!j->init()) { std::printf("INIT FAIL\n"); }
  } catch (const std::exception& e) {
    std::printf("INIT EXC %s\n", e.what());
  }
  return j;
}

int main(int argc, char** argv) {
  if (argc < 2) return 2;
  std::ifstream in(argv[1]);
  std::string line;
  simfw::Job* job = nullptr;
  setvbuf(stdout, nullptr, _IOLBF, 0);
  while (std::getline(in, line)) {
    std::istringstream ls(line);
    std::string cmd;
    ls >> cmd;
    if (cmd == "SEED") {
      ls >> simfw::sim().seed;
    } else if (cmd == "SEGMENT") {
      delete job;
      job = new_instance();
    } else if (cmd == "EVENT") {
      long id;
      int fail = -1;
      ls >> id;
      if (!(ls >> fail)) fail = -1;
      if (!job) job = new_instance();
      auto& s = simfw::sim();
      s.event = id;
      s.n_retrievals = 0;
      s.fail_retrieval = fail;
      s.rows = 0;
      simfw::products().clear();
      std::printf("BEGIN %ld\n", id);
      bool discard = false;
      try {
        int rc = job->deliver();
        if (rc == 0) {
          std::printf("END %ld OK rows=%d\n", id, s.rows);
        } else {
          std::printf("END %ld FAIL rows=%d\n", id, s.rows);
          discard = true;
        }
      } catch (const std::exception& e) {
        std::string w = e.what();
        for (char& c : w) if (c == '\n') c = ' ';
        std::printf("END %ld EXC rows=%d %s\n", id, s.rows, w.c_str());
        discard = true;
      }
      if (discard) {
        // the frameworks abort the job on a failed event; the simulator continues in a new instance
        delete job;
        job = nullptr;
      }
    }
  }
  delete job;
  std::printf("DONE\n");
  return 0;
}
