// Stand-in for the experiment frameworks, reduced to what the templates and the emitted code touch.
// ATLAS: EL::AnaAlgorithm, StatusCode, ANA_CHECK, evtStore()->retrieve, TTree, xAOD containers.
// CMS:   edm::EDAnalyzer (+ one::), edm::Event (getByLabel/getByToken), Handle, InputTag, consumes<T>,
//        edm::Service<TFileService>, DEFINE_FWK_MODULE.
// The simulator (driver.cc) owns event order, job boundaries and the event store's failures.
#pragma once
#include <algorithm>
#include <cmath>
#include <cstdint>
#include <cstdio>
#include <cstdlib>
#include <cstring>
#include <functional>
#include <map>
#include <memory>
#include <stdexcept>
#include <string>
#include <utility>
#include <vector>

// ROOT's TVector2 (only what DeltaR uses)
struct TVector2 {
  static double Phi_mpi_pi(double x) {
    const double pi = 3.14159265358979323846;
    while (x >= pi) x -= 2 * pi;
    while (x < -pi) x += 2 * pi;
    return x;
  }
};

namespace simfw {

struct TokenInfo { std::string type, bank; };

struct Sim {
  uint64_t seed = 0;
  long event = -1;
  int n_retrievals = 0;     // retrievals seen in this delivery
  int fail_retrieval = -1;  // index of the retrieval to fail in this delivery (-1: none)
  int rows = 0;             // rows filled in this delivery
  std::vector<TokenInfo> tokens;  // tokens created by consumes<T>() of the current job instance
  FILE* out = stdout;
};
Sim& sim();

inline uint64_t mix(uint64_t x) {
  x += 0x9e3779b97f4a7c15ULL;
  x = (x ^ (x >> 30)) * 0xbf58476d1ce4e5b9ULL;
  x = (x ^ (x >> 27)) * 0x94d049bb133111ebULL;
  return x ^ (x >> 31);
}
inline uint64_t hstr(const std::string& s) {
  uint64_t h = 1469598103934665603ULL;
  for (unsigned char c : s) { h ^= c; h *= 1099511628211ULL; }
  return h;
}
struct Rng {
  uint64_t s;
  uint64_t next() { s = mix(s); return s; }
  int below(int n) { return int(next() % uint64_t(n)); }
};

// what an opaque user function can read on its own: a value of the event being processed
inline double event_value() { return double(mix(sim().seed * 7919ULL + uint64_t(sim().event)) % 97) * 0.25; }

inline int size_profile() {
  uint64_t k = mix(sim().seed ^ 0x5eedc0ffeeULL) % 10;
  return k < 6 ? 0 : (k < 8 ? 1 : 2);
}

// ---------------------------------------------------------------- event data model
static const double DV[12] = {-2.5, -1.0, 0.0, 0.0, 0.5, 1.0, 1.0, 2.0, 3.5, 10.0, 31.0, 45.25};
static const int IV[6] = {0, 1, 2, 3, -1, 1};
// collection sizes: three profiles chosen per run from the event seed (swarm: most runs as before, some with mostly
// empty collections, some with collections long enough to outgrow small buffers and first allocations)
static const int SIZES_P[3][8] = {{0, 0, 1, 1, 2, 3, 3, 4}, {0, 0, 0, 0, 0, 1, 1, 2}, {0, 1, 2, 3, 5, 6, 9, 17}};

inline const int* sizes();

struct Elem {
  double d[5] = {0, 0, 0, 0, 0};
  int i[2] = {0, 0};
  bool b = false;
  std::vector<double> dv;
  std::vector<int> iv;
  double pt() const { return d[0]; }
  double eta() const { return d[1]; }
  double phi() const { return d[2]; }
  double m() const { return d[3]; }
  double e() const { return d[4]; }
  double x() const { return d[0]; }
  double y() const { return d[1]; }
  double z() const { return d[2]; }
  double met() const { return d[0]; }
  double mpx() const { return d[1]; }
  float fpt() const { return float(d[0]); }  // a single-precision getter (declared through metadata as float)
  float fm() const { return float(d[3]) * 0.5f; }
  int nTrk() const { return i[0]; }
  int charge() const { return i[1]; }
  unsigned int runNumber() const { return 300000u + unsigned(i[0] + 1); }
  unsigned long long eventNumber() const { return 1000ull + (unsigned long long)(i[1] + 1); }
  bool isGood() const { return b; }
  // xAOD "auxiliary data" access used by getAttributeFloat / getAttributeVectorFloat
  template <class T> T getAttribute(const std::string& name) const { return aux<T>(name, static_cast<T*>(nullptr)); }
  template <class T> T aux(const std::string& name, float*) const { return float(d[3] + double(name.size())); }
  template <class T> T aux(const std::string& name, std::vector<double>*) const { (void)name; return dv; }
  const std::vector<double>& cvals() const { return dv; }
  const std::vector<int>& ivals() const { return iv; }
  void fill(Rng& r) {
    for (double& v : d) v = DV[r.below(12)];
    for (int& v : i) v = IV[r.below(6)];
    b = r.below(2) == 1;
    int n = r.below(4);
    dv.clear();
    for (int k = 0; k < n; k++) dv.push_back(DV[r.below(12)]);
    n = r.below(3);
    iv.clear();
    for (int k = 0; k < n; k++) iv.push_back(IV[r.below(6)]);
  }
};
// every element also has sub-objects of its own kind (one level deep): a method returning a collection of objects
template <int K> struct ElemT : Elem {
  std::vector<ElemT<K>> kids;
  const std::vector<ElemT<K>>& subs() const { return kids; }
  void fill(Rng& r, int depth = 0) {
    Elem::fill(r);
    kids.clear();
    if (depth == 0) {
      int n = r.below(4);
      kids.resize(n);
      for (auto& k : kids) k.fill(r, 1);
    }
  }
};

inline const int* sizes() { return SIZES_P[size_profile()]; }

// ATLAS containers hold pointers (DataVector-like): iterating yields `const E*`
template <class E> class PtrColl {
  std::vector<E> store_;
  std::vector<const E*> ptrs_;
 public:
  typedef E element;
  void build(Rng& r) {
    int n = sizes()[r.below(8)];
    store_.resize(n);
    for (auto& e : store_) e.fill(r);
    ptrs_.clear();
    for (auto& e : store_) ptrs_.push_back(&e);
  }
  typename std::vector<const E*>::const_iterator begin() const { return ptrs_.begin(); }
  typename std::vector<const E*>::const_iterator end() const { return ptrs_.end(); }
  size_t size() const { return ptrs_.size(); }
  const E* at(size_t k) const { return ptrs_.at(k); }
  const E* operator[](size_t k) const { return ptrs_.at(k); }
};
// CMS collections hold values
template <class E> class ValColl : public std::vector<E> {
 public:
  typedef E element;
  void build(Rng& r) {
    int n = sizes()[r.below(8)];
    this->resize(n);
    for (auto& e : *this) e.fill(r);
  }
};
// a singleton "collection" (ATLAS EventInfo): a value, not a sequence - it has no begin()
template <int K> struct Single : ElemT<K> {
  void build(Rng& r) { this->fill(r); }
};

template <class T> struct TypeName;  // specialised below for every container type
#define SIMFW_NAME(T)                                   \
  namespace simfw {                                     \
  template <> struct TypeName<T> {                      \
    static const char* get() { return #T; }             \
  };                                                    \
  }

inline Rng product_rng(const std::string& type, const std::string& bank) {
  return Rng{mix(sim().seed * 1000003ULL + uint64_t(sim().event)) ^ hstr(type) ^ mix(hstr(bank))};
}
template <class T> std::shared_ptr<T> make_product(const std::string& type, const std::string& bank) {
  Rng r = product_rng(type, bank);
  auto p = std::make_shared<T>();
  p->build(r);
  return p;
}

// one store per delivery: the same (type, bank) asked twice yields the same object
// When an event ends its products are not freed at once: they are *poisoned* (rebuilt from a fixed seed, so sizes and
// values change) and kept alive for two more events. Whatever still points at a product of an earlier event - a cached
// container pointer, a handle kept in a member - then reads the poison instead of happening to find the next event's
// data at a recycled address, and the stale read is deterministic (no use-after-free needed to see it).
class ProductCache {
  std::map<std::string, std::shared_ptr<void>> cache_;
  std::vector<std::function<void()>> poison_;
  std::vector<std::map<std::string, std::shared_ptr<void>>> retired_;
  std::map<std::string, std::shared_ptr<void>> pool_;  // recycled objects (address-reuse model)
 public:
  template <class T> std::shared_ptr<const T> get(const std::string& bank) {
    std::string type = TypeName<T>::get();
    std::string key = type + "|" + bank;
    auto it = cache_.find(key);
    if (it == cache_.end()) {
      std::shared_ptr<T> p;
      if (reuse_addresses()) {
        // the store recycles its objects: the product of this event is built IN PLACE in the object that held the
        // same (type, bank) in the previous events - same container address, and same element addresses as long as
        // the storage does not have to grow
        auto pit = pool_.find(key);
        if (pit == pool_.end()) pit = pool_.emplace(key, std::static_pointer_cast<void>(std::make_shared<T>())).first;
        p = std::static_pointer_cast<T>(pit->second);
        Rng r = product_rng(type, bank);
        p->build(r);
      } else {
        p = make_product<T>(type, bank);
        uint64_t h = hstr(key);
        poison_.push_back([p, h]() { Rng r{0xdeadbeefcafef00dULL ^ h}; p->build(r); });
      }
      it = cache_.emplace(key, std::static_pointer_cast<void>(p)).first;
    }
    return std::static_pointer_cast<const T>(it->second);
  }
  void clear() {
    if (reuse_addresses()) {
      // the other memory model (3 runs in 10, chosen from the event seed): the store recycles its objects (see get()), so
      // the next event's products live at the SAME addresses. Poisoning shows a stale pointer being dereferenced; this
      // shows anything keyed on an object's address.
      poison_.clear();
      cache_.clear();
      return;
    }
    for (auto& f : poison_) f();
    poison_.clear();
    if (!cache_.empty()) retired_.push_back(std::move(cache_));
    cache_.clear();
    while (retired_.size() > 2) retired_.erase(retired_.begin());
  }
  static bool reuse_addresses() { return mix(sim().seed ^ 0xadd7e55ULL) % 10 < 3; }
};
ProductCache& products();

template <class C> auto size_of(const C& c) -> decltype(c.size()) { return c.size(); }
inline long size_of(const Elem&) { return 1; }

// returns false when the simulator fails this retrieval
inline bool retrieval_allowed(const char* api, const char* type, const std::string& bank) {
  int idx = sim().n_retrievals++;
  std::fprintf(sim().out, "RETRIEVE %d %s|%s|%s\n", idx, api, type, bank.c_str());
  if (idx == sim().fail_retrieval) {
    std::fprintf(sim().out, "FAILED-RETRIEVAL %d\n", idx);
    return false;
  }
  return true;
}

// ---------------------------------------------------------------- output tree
inline void fmt(std::string& s, double v) { char b[40]; std::snprintf(b, sizeof b, "%.17g", v); s += b; }
inline void fmt(std::string& s, float v) { char b[40]; std::snprintf(b, sizeof b, "%.9gf", double(v)); s += b; }
inline void fmt(std::string& s, bool v) { s += v ? "true" : "false"; }
inline void fmt(std::string& s, int v) { s += std::to_string(v); }
inline void fmt(std::string& s, unsigned v) { s += std::to_string(v); }
inline void fmt(std::string& s, long v) { s += std::to_string(v); }
inline void fmt(std::string& s, unsigned long v) { s += std::to_string(v); }
inline void fmt(std::string& s, long long v) { s += std::to_string(v); }
inline void fmt(std::string& s, unsigned long long v) { s += std::to_string(v); }
inline void fmt(std::string& s, short v) { s += std::to_string(v); }
inline void fmt(std::string& s, char v) { s += std::to_string(int(v)); }
inline void fmt(std::string& s, const std::string& v) { s += '"'; s += v; s += '"'; }
template <class T> void fmt(std::string& s, const std::vector<T>& v) {
  s += '[';
  bool first = true;
  for (const auto& x : v) {
    if (!first) s += ',';
    first = false;
    T y = x;  // vector<bool> proxies
    fmt(s, y);
  }
  s += ']';
}
template <class T> struct CppName { static const char* get() { return "?"; } };
#define SIMFW_CPPNAME(T) template <> struct CppName<T> { static const char* get() { return #T; } };
SIMFW_CPPNAME(double) SIMFW_CPPNAME(float) SIMFW_CPPNAME(int) SIMFW_CPPNAME(bool) SIMFW_CPPNAME(unsigned) SIMFW_CPPNAME(long)
SIMFW_CPPNAME(unsigned long) SIMFW_CPPNAME(long long) SIMFW_CPPNAME(unsigned long long) SIMFW_CPPNAME(short) SIMFW_CPPNAME(char)
template <class T> struct CppName<std::vector<T>> {
  static const char* get() { static std::string s = std::string("vector<") + CppName<T>::get() + ">"; return s.c_str(); }
};

}  // namespace simfw

class TTree {
  std::string name_;
  struct Br { std::string name; std::function<void(std::string&)> print; };
  std::vector<Br> brs_;
 public:
  TTree(const char* name, const char* /*title*/) : name_(name) {}
  const std::string& name() const { return name_; }
  template <class T> int Branch(const char* n, T* p) {
    std::fprintf(simfw::sim().out, "BRANCH %s %s %s\n", name_.c_str(), n, simfw::CppName<T>::get());
    brs_.push_back(Br{n, [p](std::string& s) { simfw::fmt(s, *p); }});
    return 0;
  }
  int Fill() {
    std::string s = "ROW " + name_;
    for (auto& b : brs_) { s += ' '; s += b.name; s += '='; b.print(s); }
    std::fprintf(simfw::sim().out, "%s\n", s.c_str());
    simfw::sim().rows++;
    return 1;
  }
};

// ================================================================= ATLAS
class StatusCode {
 public:
  enum Value { FAILURE = 0, SUCCESS = 1, RECOVERABLE = 2 };
  StatusCode(Value v = SUCCESS) : v_(v) {}
  bool isSuccess() const { return v_ == SUCCESS; }
  bool isFailure() const { return v_ != SUCCESS; }
  void ignore() const {}
 private:
  Value v_;
};
#define ANA_CHECK(EXP)                                  \
  do {                                                  \
    if (!(EXP).isSuccess()) return StatusCode::FAILURE; \
  } while (false)
class ISvcLocator;
// message macros of AsgMessaging (stream style): evaluated, printed to stderr
#include <iostream>
#define ANA_MSG_DEBUG(x) do { } while (false)
#define ANA_MSG_VERBOSE(x) do { } while (false)
#define ANA_MSG_INFO(x) do { std::cerr << "INFO " << x << std::endl; } while (false)
#define ANA_MSG_WARNING(x) do { std::cerr << "WARNING " << x << std::endl; } while (false)
#define ANA_MSG_ERROR(x) do { std::cerr << "ERROR " << x << std::endl; } while (false)
#define ANA_MSG_FATAL(x) do { std::cerr << "FATAL " << x << std::endl; } while (false)

namespace simfw {
class EvtStore {
 public:
  template <class T> StatusCode retrieve(const T*& out, const std::string& bank) {
    if (!retrieval_allowed("retrieve", TypeName<T>::get(), bank)) return StatusCode::FAILURE;
    held_.push_back(std::static_pointer_cast<const void>(products().get<T>(bank)));
    out = static_cast<const T*>(held_.back().get());
    std::fprintf(sim().out, "DELIVERED %s|%s size=%ld\n", TypeName<T>::get(), bank.c_str(), long(size_of(*out)));
    return StatusCode::SUCCESS;
  }
  // "is this object in the store?" - when the simulator is about to fail the next retrieval, the object is absent
  template <class T> bool contains(const std::string& bank) {
    if (sim().n_retrievals == sim().fail_retrieval) {
      int idx = sim().n_retrievals++;
      std::fprintf(sim().out, "RETRIEVE %d contains|%s|%s\n", idx, TypeName<T>::get(), bank.c_str());
      std::fprintf(sim().out, "FAILED-RETRIEVAL %d\n", idx);
      return false;
    }
    return true;
  }
  void clear() { held_.clear(); }
 private:
  std::vector<std::shared_ptr<const void>> held_;
};
}  // namespace simfw

namespace EL {
class AnaAlgorithm {
 public:
  AnaAlgorithm(const std::string& name, ISvcLocator*) : name_(name) {}
  virtual ~AnaAlgorithm() {}
  virtual StatusCode initialize() { return StatusCode::SUCCESS; }
  virtual StatusCode execute() { return StatusCode::SUCCESS; }
  virtual StatusCode finalize() { return StatusCode::SUCCESS; }
  StatusCode book(const TTree& t) {
    trees_[t.name()] = std::unique_ptr<TTree>(new TTree(t));
    return StatusCode::SUCCESS;
  }
  TTree* tree(const std::string& n) {
    auto it = trees_.find(n);
    if (it == trees_.end()) throw std::runtime_error("tree " + n + " was not booked");
    return it->second.get();
  }
  simfw::EvtStore* evtStore() { return &store_; }
 private:
  std::string name_;
  std::map<std::string, std::unique_ptr<TTree>> trees_;
  simfw::EvtStore store_;
};
}  // namespace EL

namespace xAOD {
struct TFileAccessTracer { static void enableDataSubmission(bool) {} };
typedef simfw::ElemT<1> Jet;
typedef simfw::ElemT<2> TrackParticle;
typedef simfw::ElemT<3> Electron;
typedef simfw::ElemT<4> Muon;
typedef simfw::ElemT<5> MissingET;
typedef simfw::ElemT<6> TruthParticle;
typedef simfw::Single<7> EventInfo;
// the versioned names the real headers define the plain ones from
typedef Jet Jet_v1; typedef TrackParticle TrackParticle_v1; typedef Electron Electron_v1; typedef Muon Muon_v1;
typedef MissingET MissingET_v1; typedef TruthParticle TruthParticle_v1; typedef EventInfo EventInfo_v1;
typedef simfw::PtrColl<Jet> JetContainer;
typedef simfw::PtrColl<TrackParticle> TrackParticleContainer;
typedef simfw::PtrColl<Electron> ElectronContainer;
typedef simfw::PtrColl<Muon> MuonContainer;
typedef simfw::PtrColl<MissingET> MissingETContainer;
typedef simfw::PtrColl<TruthParticle> TruthParticleContainer;
}  // namespace xAOD
SIMFW_NAME(xAOD::JetContainer)
SIMFW_NAME(xAOD::TrackParticleContainer)
SIMFW_NAME(xAOD::ElectronContainer)
SIMFW_NAME(xAOD::MuonContainer)
SIMFW_NAME(xAOD::MissingETContainer)
SIMFW_NAME(xAOD::TruthParticleContainer)
SIMFW_NAME(xAOD::EventInfo)

// ================================================================= CMS
namespace cms {
class Exception : public std::runtime_error {
 public:
  explicit Exception(const std::string& c) : std::runtime_error("cms::Exception " + c) {}
};
}  // namespace cms

namespace edm {
class ParameterSet {};
class EventSetup {};
class Run {};
class LuminosityBlock {};
class ParameterSetDescription { public: void setUnknown() {} };
class ConfigurationDescriptions { public: void addDefault(ParameterSetDescription&) {} };
class InputTag {
  std::string label_;  // what the job asked for, in CMSSW's encoded form label[:instance[:process]]
 public:
  InputTag() {}
  InputTag(const char* l) : label_(l) {}
  InputTag(const std::string& l) : label_(l) {}
  // the three-part form: the store sees it encoded, so that ("x", "RECO") - instance RECO - and "x::RECO" - process
  // RECO - stay different requests
  InputTag(const std::string& l, const std::string& instance, const std::string& process = "")
      : label_(l + (instance.empty() && process.empty() ? "" : ":" + instance) + (process.empty() ? "" : ":" + process)) {}
  const std::string& label() const { return label_; }
};
template <class T> class Handle {
  std::shared_ptr<const T> p_;
 public:
  bool isValid() const { return bool(p_); }
  const T* product() const { if (!p_) throw cms::Exception("ProductNotFound: dereference of an invalid handle"); return p_.get(); }
  const T& operator*() const { return *product(); }
  const T* operator->() const { return product(); }
  void set(std::shared_ptr<const T> p) { p_ = p; }
};
template <class T> class EDGetTokenT {
 public:
  int index = -1;
};
class Event {
 public:
  template <class T> bool getByLabel(const InputTag& tag, Handle<T>& h) const {
    if (!simfw::retrieval_allowed("getByLabel", simfw::TypeName<T>::get(), tag.label())) return false;
    h.set(simfw::products().get<T>(tag.label()));
    std::fprintf(simfw::sim().out, "DELIVERED %s|%s size=%ld\n", simfw::TypeName<T>::get(), tag.label().c_str(), long(h->size()));
    return true;
  }
  template <class T> bool getByLabel(const std::string& label, const std::string& instance, Handle<T>& h) const {
    return getByLabel(InputTag(label, instance), h);
  }
  template <class T> bool getByToken(const EDGetTokenT<T>& t, Handle<T>& h) const {
    if (t.index < 0 || t.index >= int(simfw::sim().tokens.size())) throw cms::Exception("getByToken with a token that was never initialised by consumes<T>()");
    const simfw::TokenInfo& ti = simfw::sim().tokens[t.index];
    std::string api = "getByToken#" + std::to_string(t.index) + "(" + ti.type + ")";
    if (!simfw::retrieval_allowed(api.c_str(), simfw::TypeName<T>::get(), ti.bank)) return false;
    h.set(simfw::products().get<T>(ti.bank));
    std::fprintf(simfw::sim().out, "DELIVERED %s|%s size=%ld\n", simfw::TypeName<T>::get(), ti.bank.c_str(), long(h->size()));
    return true;
  }
};
class EDAnalyzer {
 public:
  virtual ~EDAnalyzer() {}
  virtual void beginJob() {}
  virtual void analyze(const Event&, const EventSetup&) = 0;
  virtual void endJob() {}
  virtual void beginRun(Run const&, EventSetup const&) {}
  virtual void endRun(Run const&, EventSetup const&) {}
  virtual void beginLuminosityBlock(LuminosityBlock const&, EventSetup const&) {}
  virtual void endLuminosityBlock(LuminosityBlock const&, EventSetup const&) {}
 protected:
  template <class T> EDGetTokenT<T> consumes(const InputTag& tag) {
    EDGetTokenT<T> t;
    t.index = int(simfw::sim().tokens.size());
    simfw::sim().tokens.push_back(simfw::TokenInfo{simfw::TypeName<T>::get(), tag.label()});
    std::fprintf(simfw::sim().out, "CONSUMES %d %s|%s\n", t.index, simfw::TypeName<T>::get(), tag.label().c_str());
    return t;
  }
};
namespace one {
struct SharedResources {};
template <class... A> class EDAnalyzer : public edm::EDAnalyzer {};
}  // namespace one
template <class S> class Service {
 public:
  S* operator->() const { static S s; return &s; }
};
}  // namespace edm
using edm::Handle;

class TFileService {
 public:
  template <class T, class... A> T* make(A&&... a) {
    made_.push_back(std::shared_ptr<void>(new T(std::forward<A>(a)...), [](void* p) { delete static_cast<T*>(p); }));
    return static_cast<T*>(made_.back().get());
  }
 private:
  std::vector<std::shared_ptr<void>> made_;
};

namespace reco {
typedef simfw::ElemT<11> Muon;
typedef simfw::ElemT<12> Track;
typedef simfw::ElemT<13> Vertex;
typedef simfw::ElemT<14> GsfElectron;
typedef simfw::ValColl<Muon> MuonCollection;
typedef simfw::ValColl<Track> TrackCollection;
typedef simfw::ValColl<Vertex> VertexCollection;
typedef simfw::ValColl<GsfElectron> GsfElectronCollection;
}  // namespace reco
namespace pat {
typedef simfw::ElemT<21> Muon;
typedef simfw::ElemT<22> Electron;
typedef simfw::ValColl<Muon> MuonCollection;
typedef simfw::ValColl<Electron> ElectronCollection;
}  // namespace pat
SIMFW_NAME(reco::MuonCollection)
SIMFW_NAME(reco::TrackCollection)
SIMFW_NAME(reco::VertexCollection)
SIMFW_NAME(reco::GsfElectronCollection)
SIMFW_NAME(pat::MuonCollection)
SIMFW_NAME(pat::ElectronCollection)

// ================================================================= job interface used by the driver
namespace simfw {
struct Job {
  virtual ~Job() {}
  virtual bool init() = 0;
  virtual int deliver() = 0;  // 0 ok, 1 failure status; exceptions propagate to the driver
};
template <class Q> struct AtlasJob : Job {
  Q q{"query", nullptr};
  bool init() override { return static_cast<EL::AnaAlgorithm&>(q).initialize().isSuccess(); }
  int deliver() override {
    q.evtStore()->clear();
    return static_cast<EL::AnaAlgorithm&>(q).execute().isSuccess() ? 0 : 1;
  }
};
template <class A> struct CmsJob : Job {
  edm::ParameterSet ps;
  A a{ps};
  bool init() override { static_cast<edm::EDAnalyzer&>(a).beginJob(); return true; }
  int deliver() override {
    edm::Event ev;
    edm::EventSetup es;
    static_cast<edm::EDAnalyzer&>(a).analyze(ev, es);
    return 0;
  }
};
}  // namespace simfw
#define DEFINE_FWK_MODULE(A) \
  extern "C" simfw::Job* simfw_make_job() { return new simfw::CmsJob<A>(); }
