"""Engine `svc`: the translator as a long-lived service (C07; C02 package-completeness clause).

Process model
  chunk worker (pristine: everything imported, nothing ever translated)
    |- reference child per distinct (backend, query, ld): the query alone in a fresh state
    |- history child per case: executes the generated history, compares every fault-free
       translation with its reference, returns log + violations
"""
import copy
import os
import shutil
import tempfile

from ..core import isolate
from ..core.shrink import ddmin_list, greedy_replace
from ..core.util import cjson, fingerprint, run_rng, weighted
from . import pools

NAME = "svc"
ISOLATE = False  # execute() does its own isolation (it needs a pristine parent for references)
CASE_TIMEOUT = 120.0
CHUNK = 6
# a C02 item is a whole enumeration (one isolated child per I/O call of the write phase, about 100): smaller chunks and a
# longer allowance, so that a heavily loaded machine does not turn into HARNESS-ERROR (seen once in a soak run next to
# three other batch jobs)
CHUNKS = {"C02": 2}
CASE_TIMEOUTS = {"C02": 600.0}

REAL_VS_STUB = {
    "real": ["func_adl_xAOD executors, metadata processing, translator, templates (all of /repo's package)",
             "func_adl front end (ObjectStream, MetaData), qastle round trip", "jinja2 rendering", "file system (tmp dir)"],
    "stub": ["builtins.open/os.chmod wrappers that count and fail the k-th call under the output directory (only when a fault is armed)",
             "sys.settrace line hook that raises at the n-th line inside /repo (only when an abort is armed)",
             "python_on_whales stand-in (imported, never called by this engine)"],
}

PROPERTIES = {
    "C07": {
        "level": "exploration",
        "wall_cap": {"quick": 150.0, "thorough": 3000.0},
        "rule": "seeded histories of 1-12 operations (new/drop executor, translate [python-AST or qastle wire; plain or "
                "LocalDataset-style], translate with injected I/O error at the k-th write-phase call, translate aborted at the "
                "n-th line inside /repo, first phase only (apply_ast_transformations, package never asked for)) on one process; every fault-free translation is compared, after exact name "
                "normalisation, with the same query translated alone in a fresh process. A history is non-trivial when a "
                "compared translation follows at least one earlier translation; distinct = distinct (sequence of (query "
                "name, metadata names, outcome class, fault fired, slot kind)) tuples.",
        "real_vs_stub": REAL_VS_STUB,
        "assumptions": [
            "a fresh forked child of a process that has done `import func_adl_xAOD` (and nothing else of the package: lazily "
            "imported backends and modules are imported by the history / the reference when first needed) and never built an "
            "executor stands for a fresh interpreter",
            "injected aborts never land while reset()/define_default_* is on the stack",
            "queries/metadata come from finite pools (sim/svc/pools.py); histories are sampled, not enumerated",
        ],
    },
    "C02": {
        "level": "fault_enumeration",
        "wall_cap": {"quick": 150.0, "thorough": 3000.0},
        "rule": "for each pool (query, backend, wire, output-directory state in {empty, holds another query's package, "
                "holds a package unpacked without mode bits, emptied after a kept executor wrote into it, holds a directory / "
                "symlink to a directory named like a package file, "
                "shared with a kept executor of another backend}) the write phase is run once fault-free counting its "
                "file-system calls (open/write/close/chmod under the output directory, and the read-open of every template file), then once per call index with that call raising OSError, followed "
                "by a fault-free retry with the same executor into the same directory; whenever translation returns, the package must be "
                "complete (all named files present, non-empty, byte-identical to the fault-free rendering, entry script 0755, "
                "no template directive left). Non-trivial = a case in which at least one fault fired; distinct = "
                "(query, dir state, call kind, file) tuples.",
        "real_vs_stub": REAL_VS_STUB,
        "assumptions": [
            "only the package-completeness clause of C02 is decided here; C++ well-formedness has no schedule or fault in it "
            "and is not claimed",
            "the injected faults are OSError(ENOSPC|EIO|EACCES) at open/write/close/chmod under the output directory and at the open-for-read of each template file",
        ],
    },
}

BACKENDS = ["atlas", "cms_aod", "cms_miniaod"]
_refs = {}
_scratch = None


def prepare(prop, tier, seed):
    global _scratch
    from . import xlate
    xlate.install()
    _scratch = tempfile.mkdtemp(prefix="verif-svc-")
    import atexit
    atexit.register(lambda p=_scratch, pid=os.getpid(): os.getpid() == pid and shutil.rmtree(p, ignore_errors=True))


N_RUNS = {"C07": {"quick": 3600, "thorough": 60000}, "C02": {"quick": 0, "thorough": 0}}


def _c02_space(tier):
    items = []
    for b in BACKENDS:
        for name, steps in pools.QUERIES[b]:
            if "_bad_" in name:
                continue
            for stale in (False, True, "kept_cross", "unpacked", "kept_cleaned", "dir_in_the_way", "dirlink_in_the_way"):
                wires = ("ast", "qastle") if tier == "thorough" else ("ast",)
                for wire in wires:
                    items.append((b, name, stale, wire))
    return items


def plan(prop, tier, seed):
    if prop == "C02":
        return len(_c02_space(tier))
    return N_RUNS[prop][tier]


# ------------------------------------------------------------------ generation

def _gen_query(rng, backend, wire=None):
    """A query from the typed generator of the job engine (outside the hand-written pool). Its metadata
    declarations are dropped with some probability so that a later query *relies on the default typing*
    of a method an earlier query declared."""
    from ..job import qgen, qgen2
    import hashlib
    q = qgen2.generate(rng, backend) if rng.random() < 0.5 else qgen.generate(rng, backend)
    md = list(q["md"])
    if md and rng.random() < 0.4:
        keep = [m for m in md if rng.random() < 0.5]
        md = keep
    names = [f"{m[1].get('type_string', m[1].get('name', '?'))}.{m[1].get('method_name', '')}" for m in md]
    return {"name": "gen:" + hashlib.sha256(repr(q["steps"]).encode()).hexdigest()[:8], "backend": backend, "steps": q["steps"],
            "md_names": names, "md": md, "wire": wire or q["wire"]}


MD_FAMILIES = ["js_", "inj_", "enum_", "fn_", "coll_", "type"]


def _query(rng, backend, name=None, md_rate=0.5, foreign_rate=0.05, wire=None, ld=False, omit_needs=0.12, md_at_end=False, family=None):
    qs = pools.QUERIES[backend]
    if name is None:
        name, steps = qs[rng.randrange(len(qs))]
    else:
        steps = dict(qs)[name]
    mds = []
    for m in pools.NEEDS.get(name, []):
        if rng.random() >= omit_needs:
            mds.append(m)
    own = pools.md_for_backend(backend)
    if not ld:
        own = [m for m in own if not m.startswith("docker_")] + (["docker_a"] if rng.random() < 0.03 else [])
    k = 0
    fam = None
    if family is not None:
        # swarm knob: this history draws most of its extra metadata from ONE family (job scripts, inject blocks, enums,
        # functions, collections, method types), so that declarations of several queries collide inside that family
        fam = [m for m in own if (m.startswith(family) if family != "type" else not m.startswith(tuple(MD_FAMILIES[:-1]) + ("docker_",)))]
        md_rate = max(md_rate, 0.7)
    while rng.random() < md_rate and k < 3:
        pick_from = fam if (fam and rng.random() < 0.75) else own
        mds.append(pick_from[rng.randrange(len(pick_from))])
        k += 1
    if rng.random() < foreign_rate:
        fo = pools.md_foreign(backend)
        mds.append(fo[rng.randrange(len(fo))])
    for m in list(mds):
        for comp, p_comp in pools.COMPANIONS.get(m, []):
            if rng.random() < p_comp:
                mds.append(comp)
    rng.shuffle(mds)
    md = [[rng.randrange(len(steps) + 1) if steps[-1][0] != "AsROOTTTree" else rng.randrange(len(steps)), m] for m in mds]
    if md_at_end:
        # all metadata attached after the last operator: two queries that differ only in their metadata then share
        # every node of the query proper when they are built from a common base
        md = [[len(steps) if steps[-1][0] != "AsROOTTTree" else len(steps) - 1, m] for _, m in md]
    return {"name": name, "backend": backend, "steps": steps, "md_names": [m for _, m in md],
            "md": [[p, pools.METADATA[m][0]] for p, m in md],
            "wire": wire or ("qastle" if rng.random() < 0.3 else "ast")}


def make_case(prop, tier, seed, i):
    rng = run_rng(NAME, seed, i, prop)
    if prop == "C02":
        b, name, stale, wire = _c02_space(tier)[i]
        q = _query(rng, b, name=name, md_rate=0.4, foreign_rate=0.0, wire=wire, omit_needs=0.0)
        # metadata that would make it fail is of no use here: keep only NEEDS + harmless blocks
        keep = set(pools.NEEDS.get(name, [])) | {"js_a", "js_y_nodep", "inj_1", "inj_2", "fn_scale", "enum_other"}
        pairs = [(p, m) for (p, _), m in zip(q["md"], q["md_names"]) if m in keep]
        q["md_names"] = [m for _, m in pairs]
        q["md"] = [[p, pools.METADATA[m][0]] for p, m in pairs]
        ob = b if stale != "kept_cross" else BACKENDS[(BACKENDS.index(b) + 1) % 3]
        other = pools.QUERIES[ob][0]
        return {"engine": NAME, "prop": prop, "seed": seed, "run": i, "backend": b, "query": q, "stale": stale,
                "stale_query": {"name": other[0], "backend": ob, "steps": other[1], "md": [], "md_names": [], "wire": "ast"},
                "errno": ["ENOSPC", "EIO", "EACCES"][i % 3],
                # the fault point is enumerated completely for the two basic directory states (and for all of them in the
                # thorough tier); the other states get every open/close/chmod and the first/last/4 sampled writes per file
                "select": "all" if (tier == "thorough" or stale in (False, True)) else "sampled", "sel_seed": rng.randrange(1 << 30), "faults": None}
    # ---- C07: swarm configuration first, then the history
    nb = weighted(rng, [(1, 5), (2, 3), (3, 2)])
    backends = rng.sample(BACKENDS, nb)
    cfg = {
        "backends": backends,
        "p_reuse": rng.choice([0.0, 0.3, 0.7, 1.0]),
        "p_fault": rng.choice([0.0, 0.0, 0.15, 0.35]),
        "fault_kinds": rng.sample(["io", "abort", "tmpl_missing", "apply_only", "bad_outdir"], rng.choice([1, 2, 3])),
        "p_ld": rng.choice([0.0, 0.0, 0.2, 0.6]),
        "md_rate": rng.choice([0.2, 0.5, 0.7]),
        "p_mismatch": rng.choice([0.0, 0.05]),
        "p_share": rng.choice([0.0, 0.0, 0.5, 1.0]),
        "p_gen": rng.choice([0.0, 0.0, 0.4, 0.8]),
        "omit_needs": rng.choice([0.12, 0.12, 0.4]),
        "focus": None,
        "hot": None,
        "md_family": rng.choice([None, None, None] + MD_FAMILIES),
    }
    # bias: a 'hot' sub-pool of few queries so that polluter and probe touch the same methods
    if rng.random() < 0.6:
        cfg["hot"] = {b: [pools.QUERIES[b][rng.randrange(len(pools.QUERIES[b]))][0] for _ in range(rng.choice([2, 3, 5]))]
                      for b in backends}
    # bias: a 'focused' history keeps translating ONE query (one that needs declarations) with varying declarations -
    # present, omitted, or an alternative - built on shared streams: the setting in which a stale cached representation shows
    if rng.random() < 0.15:
        fb = rng.choice(backends)
        cands = [nm for nm, _ in pools.QUERIES[fb] if nm in pools.NEEDS]
        if cands:
            cfg["focus"] = [fb, rng.choice(cands)]
            cfg["p_share"] = rng.choice([0.5, 1.0])
            cfg["p_gen"] = 0.0
    n = weighted(rng, [(1, 1), (2, 3), (3, 4), (4, 4), (6, 3), (9, 2), (12, 1)])
    ops = []
    slots = {}
    for j in range(n):
        last = j == n - 1
        r = rng.random()
        if not last and r < 0.12 and len(slots) < 4:
            k = min(set(range(4)) - set(slots))
            b = rng.choice(backends)
            slots[k] = b
            ops.append({"op": "new", "slot": k, "backend": b})
            continue
        if not last and r < 0.16 and slots:
            k = rng.choice(sorted(slots))
            del slots[k]
            ops.append({"op": "drop", "slot": k})
            continue
        slot = None
        if slots and rng.random() < cfg["p_reuse"]:
            slot = rng.choice(sorted(slots))
        eb = slots[slot] if slot is not None else rng.choice(backends)
        qb = eb
        if rng.random() < cfg["p_mismatch"]:
            qb = rng.choice(BACKENDS)
        ld = rng.random() < cfg["p_ld"]
        name = None
        if cfg["hot"] and qb in cfg["hot"] and rng.random() < 0.8:
            name = rng.choice(cfg["hot"][qb])
        if cfg["focus"] and rng.random() < 0.85:
            qb, fname = cfg["focus"]
            if slot is not None and slots[slot] != qb:
                slot = None
            eb = qb
            q = _query(rng, qb, name=fname, md_rate=0.0, foreign_rate=0.0, ld=ld, omit_needs=0.0, md_at_end=rng.random() < 0.7)
            # vary the declarations: keep / omit / alternative
            pairs = []
            for (pos, _), m in zip(q["md"], q["md_names"]):
                r3 = rng.random()
                if r3 < 0.25:
                    continue
                if r3 < 0.5 and m in pools.VARIANTS:
                    m = rng.choice(pools.VARIANTS[m])
                pairs.append((pos, m))
            q["md_names"] = [m for _, m in pairs]
            q["md"] = [[p_, pools.METADATA[m][0]] for p_, m in pairs]
            q["wire"] = "ast"
        elif cfg["p_gen"] and name is None and rng.random() < cfg["p_gen"]:
            q = _gen_query(rng, qb)
        else:
            q = _query(rng, qb, name=name, md_rate=cfg["md_rate"], ld=ld, omit_needs=cfg["omit_needs"],
                       md_at_end=cfg["p_share"] > 0 and rng.random() < 0.5, family=cfg["md_family"])
        op = {"op": "translate", "slot": slot, "backend": eb, "query": q, "ld": ld, "fault": None,
              "share": rng.random() < cfg["p_share"]}
        if not last and rng.random() < cfg["p_fault"]:
            kind = rng.choice(cfg["fault_kinds"])
            if kind == "io":
                op["fault"] = {"kind": "io", "frac": rng.random(), "errno": rng.choice(["ENOSPC", "EIO", "EACCES"])}
            elif kind == "tmpl_missing":
                op["fault"] = {"kind": "tmpl_missing"}
            elif kind == "apply_only":
                op["fault"] = {"kind": "apply_only"}
            elif kind == "bad_outdir":
                # a persistently unusable output location (not a one-shot error): the path is a regular file, one of the
                # package's file names is taken by a directory, or the directory does not exist
                op["fault"] = {"kind": "bad_outdir", "how": rng.choice(["is_file", "name_taken_by_dir", "missing"])}
            else:
                op["fault"] = {"kind": "abort", "frac": rng.random(), "wide": rng.random() < 0.4,
                               "exc": weighted(rng, [("RecursionError", 6), ("MemoryError", 3), ("KeyboardInterrupt", 1)])}
        ops.append(op)
    # bias: a 'counter' history - the same query many times (every translation advances the process-wide name
    # counter(s)), then a probe whose column names are related (one is another plus digits) or many: identifiers are
    # <name><counter>, so whether two of them coincide must not depend on how far earlier translations counted
    if rng.random() < 0.03:
        b = rng.choice(backends)
        pre = {"atlas": "a", "cms_aod": "c", "cms_miniaod": "m"}[b]
        qa = _query(rng, b, name=rng.choice([pre + "_cols_pt", pre + "_cols_pt", pools.QUERIES[b][rng.randrange(len(pools.QUERIES[b]))][0]]),
                    md_rate=0.0, foreign_rate=0.0, omit_needs=0.0)
        k = rng.choice([9, 10, 10, 10, 11, 12, 20, 21, 100, 101])  # 100 translations take the name counters to four digits
        keep = rng.random() < 0.5
        ops = [{"op": "new", "slot": 6, "backend": b}] if keep else []
        for _ in range(k):
            ops.append({"op": "translate", "slot": 6 if keep else None, "backend": b, "query": copy.deepcopy(qa), "ld": False,
                        "fault": None, "share": False})
        qb = _query(rng, b, name=rng.choice([pre + "_cols_pt1_pt", pre + "_cols_pt1_pt", pre + "_cols12", None]),
                    md_rate=0.0, foreign_rate=0.0, omit_needs=0.0)
        ops.append({"op": "translate", "slot": 6 if (keep and rng.random() < 0.5) else None, "backend": b, "query": qb, "ld": False,
                    "fault": None, "share": False})
        cfg["focus_counter"] = k
        return {"engine": NAME, "prop": prop, "seed": seed, "run": i, "cfg": cfg, "ops": ops}
    # bias: an 'extended metadata' history - one kept executor serves LocalDataset-style translations, most of the
    # earlier ones naming a docker image, the last one mostly not (what the earlier ones found must not reach it)
    tr = [o for o in ops if o["op"] == "translate"]
    if len(tr) >= 2 and rng.random() < 0.06:
        b = tr[-1]["backend"]
        ops.insert(0, {"op": "new", "slot": 7, "backend": b})
        for o in tr:
            if o["backend"] != b:
                continue
            o["slot"], o["ld"] = 7, True
            q = o["query"]
            has = any(m.get("metadata_type") == "docker" for _, m in q["md"])
            if not has and rng.random() < (0.6 if o is not tr[-1] else 0.2):
                m = rng.choice(["docker_a", "docker_b"])
                pos = len(q["steps"]) - 1 if q["steps"][-1][0] == "AsROOTTTree" else rng.randrange(len(q["steps"]) + 1)
                q["md"] = q["md"] + [[pos, pools.METADATA[m][0]]]
                q["md_names"] = q["md_names"] + [m]
        if rng.random() < 0.4:
            # ... and the last one is an ordinary translation on the kept executor (nobody registered the extended metadata
            # type for it): whether it knows 'docker' metadata must not depend on the LocalDataset-style ones before it
            tr[-1]["ld"] = False
        cfg["focus_ext_md"] = True
    return {"engine": NAME, "prop": prop, "seed": seed, "run": i, "cfg": cfg, "ops": ops}


# ------------------------------------------------------------------ execution

def _ref_child(backend, query, ld, count_lines, tag):
    from . import xlate
    d = xlate.make_outdir(_scratch, f"ref-{os.getpid()}-{tag}")
    try:
        exe = xlate.executor_class(backend)()
        io_plan = xlate.IOPlan(d)
        ab = xlate.AbortPlan() if count_lines else None
        r = xlate.translate(exe, query, d, ld=ld, io_plan=io_plan, abort_plan=ab)
        r["lines_wide"] = 0
        if count_lines:
            # second pass counting the line events of the dependencies' frames as well
            shutil.rmtree(d, ignore_errors=True)
            os.makedirs(d)
            ab2 = xlate.AbortPlan(wide=True)
            r2 = xlate.translate(xlate.executor_class(backend)(), query, d, ld=ld, abort_plan=ab2)
            r["lines_wide"] = r2["lines"]
        return r
    finally:
        shutil.rmtree(d, ignore_errors=True)


def reference(backend, query, ld, count_lines=False):
    key = fingerprint([backend, query["steps"], query["md"], query["wire"], ld])
    r = _refs.get(key)
    if r is None or (count_lines and not r.get("lines")):
        r = isolate.call_isolated(_ref_child, (backend, query, ld, count_lines, key), timeout=60)
        _refs[key] = r
    return r


def _op_label(op, outcome, fired):
    if op["op"] != "translate":
        return [op["op"], op.get("backend")]
    return [op["query"]["name"], sorted(op["query"]["md_names"]), op["query"]["wire"], "ld" if op["ld"] else "",
            "slot" if op["slot"] is not None else "fresh", outcome, fired]


def _history_child(case, refs):
    from . import xlate
    root = xlate.make_outdir(_scratch, f"hist-{os.getpid()}")
    log, viols, stats, states, shape = [], [], {}, [], []

    def bump(k, n=1):
        stats[k] = stats.get(k, 0) + n

    slots = {}
    streams = {}  # ObjectStream objects of this process (queries built from a common base share AST nodes)
    n_translated = 0
    prev_failed = prev_fault = prev_other_backend_ok = False
    try:
        for idx, op in enumerate(case["ops"]):
            if op["op"] == "new":
                slots[op["slot"]] = {"exe": xlate.executor_class(op["backend"])(), "backend": op["backend"]}
                log.append({"i": idx, "op": "new", "slot": op["slot"], "backend": op["backend"]})
                shape.append(_op_label(op, None, None))
            elif op["op"] == "drop":
                slots.pop(op["slot"], None)
                log.append({"i": idx, "op": "drop", "slot": op["slot"]})
                shape.append(_op_label(op, None, None))
            else:
                q = op["query"]
                kept = op["slot"] is not None and op["slot"] in slots
                exe = slots[op["slot"]]["exe"] if kept else xlate.executor_class(op["backend"])()
                ref = refs[idx]
                io_plan = ab = None
                f = op.get("fault")
                d = xlate.make_outdir(root, f"t{idx}")
                if f and f["kind"] == "io":
                    ncalls = len(ref["io_calls"])
                    io_plan = xlate.IOPlan(d, k=int(f["frac"] * ncalls) if ncalls else 0, err=f["errno"])
                elif f and f["kind"] == "abort":
                    lines = ref["lines_wide"] if f.get("wide") else ref["lines"]
                    ab = xlate.AbortPlan(n=int(f["frac"] * max(1, lines)), exc=f["exc"], wide=bool(f.get("wide")))
                tm = xlate.TemplateDirMissing() if f and f["kind"] == "tmpl_missing" else None
                if f and f["kind"] == "bad_outdir":
                    if f["how"] == "is_file":
                        shutil.rmtree(d)
                        with open(d, "w") as fh:
                            fh.write("not a directory\n")
                    elif f["how"] == "name_taken_by_dir":
                        os.makedirs(os.path.join(d, "runner.sh"))
                    else:
                        shutil.rmtree(d)
                n_streams = len(streams)
                got = xlate.translate(exe, q, d, ld=op["ld"], io_plan=io_plan, abort_plan=ab, extra_seam=tm,
                                      stream_cache=streams if op.get("share") else None,
                                      apply_only=bool(f and f["kind"] == "apply_only"),
                                      wipe_registries_after=bool(f and f.get("wipe_registries")),
                                      forget_registered_md_after=bool(f and f.get("forget_registered_md")))
                if op.get("share") and q["wire"] == "ast" and n_streams and len(streams) == n_streams:
                    bump("reach:same_query_object_translated_again")
                elif op.get("share") and q["wire"] == "ast" and n_streams:
                    bump("reach:query_built_on_shared_base")
                fired = None
                if got["outcome"] == "abandoned":
                    fired = "apply_only"
                    bump("fault:abandoned_after_first_phase")
                if f and f["kind"] == "bad_outdir":
                    fired = "bad_outdir:" + f["how"]
                    bump("fault:output_location_unusable_" + f["how"])
                if tm is not None and tm.fired:
                    fired = "tmpl_missing"
                    bump("fault:template_dir_not_found")
                if io_plan is not None and io_plan.fired:
                    fired = "io:" + io_plan.fired[0]
                    bump("fault:io_" + io_plan.fired[0])
                if ab is not None and ab.fired:
                    fired = "abort:" + f["exc"]
                    bump("fault:abort_" + f["exc"])
                    bump("reach:abort_in_" + ab.fired[0].replace("/", "."))
                dg = xlate.digest_outcome(got)
                rec = {"i": idx, "op": "translate", "q": q["name"], "md": q["md_names"], "ld": op["ld"],
                       "slot": op["slot"] if kept else None, "fired": fired, "got": dg}
                if fired is None:
                    diff = xlate.compare_outcomes(ref, got)
                    bump("compared")
                    if n_translated:
                        bump("reach:compared_after_history")
                    if prev_failed:
                        bump("reach:compared_after_failed_translation")
                    if prev_fault:
                        bump("reach:compared_after_injected_fault")
                    if kept:
                        bump("reach:compared_on_kept_executor")
                    if op["ld"]:
                        bump("reach:compared_localdataset_style")
                    if diff is not None:
                        rec["diff"] = diff
                        viols.append({"property": "C07", "invariant": "probe-differs", "op_index": idx,
                                      "detail": f"op {idx} query {q['name']} md {q['md_names']} "
                                                f"({'kept executor' if kept else 'fresh executor'}): {diff}"})
                else:
                    if got["outcome"] not in ("raise", "abandoned"):
                        rec["note"] = "fault fired but translation returned"
                        bump("fault_survived")
                    if f["kind"] == "io" and got["outcome"] == "ok":
                        # C02's clause, observed here only as a counter
                        bump("io_fault_but_returned")
                log.append(rec)
                shape.append(_op_label(op, got["outcome"] + ":" + got.get("type", ""), fired))
                n_translated += 1
                prev_failed = prev_failed or (got["outcome"] == "raise" and fired is None)
                prev_fault = prev_fault or fired is not None
                bump("translate_ok" if got["outcome"] == "ok" else "translate_raise")
                if os.path.isdir(d):
                    shutil.rmtree(d, ignore_errors=True)
                elif os.path.exists(d):
                    os.remove(d)
            states.append(xlate.abstract_state(slots))
    finally:
        shutil.rmtree(root, ignore_errors=True)
    nontrivial = [fingerprint(shape)] if n_translated >= 2 else []
    return {"log": log, "violations": viols, "stats": stats, "states": states, "nontrivial": nontrivial}


def _c02_child(case, k, ref):
    """One translation into a (possibly stale) directory, with the k-th I/O call failing (k None = fault-free)."""
    from . import xlate
    import stat as _stat
    d = xlate.make_outdir(_scratch, f"c02-{os.getpid()}")
    try:
        exe = None
        if case["stale"] == "kept_cross":
            # one kept executor translates the query into D, an executor of another backend translates its own
            # query into the same D, then the kept executor translates the query into D again (that one is judged)
            exe = xlate.executor_class(case["backend"])()
            xlate.translate(exe, case["query"], d)
            e0 = xlate.executor_class(case["stale_query"]["backend"])()
            xlate.translate(e0, case["stale_query"], d)
        elif case["stale"] in ("dir_in_the_way", "dirlink_in_the_way"):
            # the output directory already holds a sub-directory (or a symlink to one) named like a package file
            names = sorted(ref["all_filenames"]) if ref and ref.get("outcome") == "ok" else ["runner.sh"]
            victim = names[case["sel_seed"] % len(names)]
            if case["stale"] == "dir_in_the_way":
                os.makedirs(os.path.join(d, victim))
            else:
                tgt = d + "-shared"
                os.makedirs(tgt, exist_ok=True)
                os.symlink(tgt, os.path.join(d, victim))
        elif case["stale"] == "kept_cleaned":
            # a kept executor translated into D before; D was emptied (rm -rf; mkdir) and is used again
            exe = xlate.executor_class(case["backend"])()
            xlate.translate(exe, case["query"], d)
            for fn in os.listdir(d):
                os.remove(os.path.join(d, fn))
        elif case["stale"]:
            e0 = xlate.executor_class(case["backend"])()
            xlate.translate(e0, case["stale_query"], d)
            if case["stale"] == "unpacked":
                # the earlier package was unpacked from an archive that does not keep mode bits
                for fn in os.listdir(d):
                    os.chmod(os.path.join(d, fn), 0o644)
        if exe is None:
            exe = xlate.executor_class(case["backend"])()
        plan = xlate.IOPlan(d, k=k, err=case["errno"])
        got = xlate.translate(exe, case["query"], d, io_plan=plan)
        first = got
        retried = False
        if k is not None and plan.fired and got["outcome"] == "raise":
            # the fault has cleared: the same executor translates the same query into the same directory again
            got = xlate.translate(exe, case["query"], d)
            retried = True
        out = {"k": k, "fired": list(plan.fired) if plan.fired else None, "outcome": first["outcome"],
               "type": first.get("type"), "oserror": first.get("oserror"), "calls": [list(c) for c in plan.calls],
               "problems": [], "retried": retried, "retry_outcome": got["outcome"] if retried else None}
        if got["outcome"] == "ok":
            pr = out["problems"]
            for fn in got["all_filenames"]:
                if not got["present"][fn]:
                    pr.append(f"file {fn} named in the returned info does not exist")
                elif got["files"][fn] == "":
                    pr.append(f"file {fn} is empty")
                else:
                    for tok in ("{{", "{%", "{#"):
                        if tok in got["files"][fn]:
                            pr.append(f"file {fn} still contains template directive {tok!r}")
            if got["mode"] is None or (got["mode"] & 0o111) != 0o111:
                pr.append(f"entry script {got['main_script']} mode {oct(got['mode']) if got['mode'] is not None else None} "
                          f"is not executable by user, group and other")
            if got["main_script"] not in got["all_filenames"]:
                pr.append("entry script is not among the named files")
            if not got["output_path_ok"]:
                pr.append("returned output_path is not the requested directory")
            if ref is not None and ref["outcome"] == "ok":
                for fn in ref["all_filenames"]:
                    if got["files"].get(fn) != ref["files"][fn]:
                        pr.append(f"file {fn} differs from the fault-free rendering of the same query "
                                  f"(len {len(got['files'].get(fn) or '')} vs {len(ref['files'][fn])})")
            if plan.fired and not retried:
                pr.insert(0, f"I/O error injected at call #{k} ({plan.fired[0]} {plan.fired[1]}) but translation returned")
            if retried and pr:
                pr[:] = [f"retry after the I/O error at call #{k} ({plan.fired[0]} {plan.fired[1]}) returned an incomplete package: " + x for x in pr]
        elif retried:
            out["problems"].append(f"retry after the I/O error at call #{k} raised {got.get('type')}: {got.get('msg', '')[:200]}")
        if plan.fired and first["outcome"] == "raise" and not first.get("oserror"):
            out["problems"].append(f"injected OSError at call #{k} surfaced as {first.get('type')} without the OSError in its chain")
        return out
    finally:
        shutil.rmtree(d, ignore_errors=True)
        shutil.rmtree(d + "-shared", ignore_errors=True)


def _c02_execute(case):
    import random
    ref = reference(case["backend"], case["query"], False)
    log, viols, stats, nontrivial = [], [], {}, []

    def bump(k, n=1):
        stats[k] = stats.get(k, 0) + n

    base = isolate.call_isolated(_c02_child, (case, None, ref), timeout=60)
    log.append({"k": None, "stale": case["stale"], "outcome": base["outcome"], "calls": len(base["calls"]), "problems": base["problems"]})
    if base["outcome"] != "ok":
        if case["stale"] in ("dir_in_the_way", "dirlink_in_the_way") and ref.get("outcome") == "ok":
            # raising is the correct reaction to a directory in the way of a package file
            bump("reach:raised_because_directory_in_the_way")
            return {"log": log, "violations": [], "stats": stats, "states": [],
                    "nontrivial": [fingerprint([case["query"]["name"], case["stale"]])]}
        bump("skipped_query_does_not_translate")
        return {"log": log, "violations": [], "stats": stats, "states": [], "nontrivial": []}
    for p in base["problems"]:
        viols.append({"property": "C02", "invariant": "package-incomplete", "k": None,
                      "detail": f"{case['query']['name']} (stale={case['stale']}) fault-free: {p}"})
    calls = base["calls"]
    if case.get("faults") is not None:
        ks = [k for k in case["faults"] if k < len(calls)]
    elif case["select"] == "all":
        ks = list(range(len(calls)))
    else:
        r = random.Random(case["sel_seed"])
        ks = set()
        byfile = {}
        for i, (kind, rel) in enumerate(calls):
            if kind != "write":
                ks.add(i)
            else:
                byfile.setdefault(rel, []).append(i)
        for rel, idxs in byfile.items():
            ks.update([idxs[0], idxs[-1]])
            ks.update(r.sample(idxs, min(4, len(idxs))))
        ks = sorted(ks)
    bump("io_calls_in_write_phase", len(calls))
    for k in ks:
        o = isolate.call_isolated(_c02_child, (case, k, ref), timeout=60)
        kind, rel = calls[k]
        log.append({"k": k, "kind": kind, "file": rel, "fired": o["fired"], "outcome": o["outcome"], "type": o["type"]})
        if o["fired"]:
            bump(f"fault:{kind}_{case['errno']}")
            nontrivial.append(fingerprint([case["query"]["name"], case["stale"], kind, rel]))
        if o["outcome"] == "raise":
            bump("reach:raised_on_fault")
        if o.get("retried"):
            bump("reach:retry_after_fault_same_executor_same_dir")
        for p in o["problems"]:
            viols.append({"property": "C02", "invariant": "package-incomplete", "k": k,
                          "detail": f"{case['query']['name']} (stale={case['stale']}) fault@{k}={kind}:{rel}: {p}"})
    return {"log": log, "violations": viols, "stats": stats, "states": [], "nontrivial": nontrivial}


def execute(case):
    if case["prop"] == "C02":
        return _c02_execute(case)
    refs = {}
    for idx, op in enumerate(case["ops"]):
        if op["op"] == "translate":
            f = op.get("fault")
            refs[idx] = reference(op["backend"], op["query"], op["ld"], count_lines=bool(f and f["kind"] == "abort"))
    res = isolate.call_isolated(_history_child, (case, refs), timeout=CASE_TIMEOUT)
    if res["violations"] and any((op.get("fault") or {}).get("kind") == "apply_only" for op in case["ops"]):
        # Attribution for the recorded finding K4 (known_findings.json): the same history once more, but the two
        # process-wide registries are emptied right after every abandoned first phase. If nothing differs any more, the
        # difference comes from exactly what K4 describes; if something still differs, it is something else and is
        # reported as an ordinary violation.
        # K5 likewise: additionally the extended-metadata types the caller registered (add_extended_md) for the abandoned
        # translation are forgotten on its executor.
        for label, keys in (("registries-after-abandoned-first-phase", ("wipe_registries",)),
                            ("registered-extended-md-after-abandoned-first-phase", ("wipe_registries", "forget_registered_md"))):
            c2 = copy.deepcopy(case)
            for op in c2["ops"]:
                if (op.get("fault") or {}).get("kind") == "apply_only":
                    for k in keys:
                        op["fault"][k] = True
            r2 = isolate.call_isolated(_history_child, (c2, refs), timeout=CASE_TIMEOUT)
            if not r2["violations"]:
                for v in res["violations"]:
                    v["attributed"] = label
                res["stats"]["reach:violation_attributed_to_recorded_finding_" + ("K4" if len(keys) == 1 else "K5")] = 1
                break
    return res


# ------------------------------------------------------------------ shrinking, signatures

def shrink(case, fails):
    if case["prop"] == "C02":
        c = copy.deepcopy(case)
        v = fails(c)
        if v and v.get("k") is not None:
            c2 = copy.deepcopy(c)
            c2["faults"] = [v["k"]]
            if fails(c2):
                c = c2
        elif v:
            c2 = copy.deepcopy(c)
            c2["faults"] = []
            if fails(c2):
                c = c2
        if c["stale"]:
            c2 = copy.deepcopy(c)
            c2["stale"] = False
            if fails(c2):
                c = c2
        return c

    def with_ops(ops):
        c = copy.deepcopy(case)
        c["ops"] = ops
        return c

    ops = ddmin_list(case["ops"], lambda o: bool(o) and fails(with_ops(o)))

    def simpler(op):
        if op["op"] != "translate":
            return
        if op.get("fault"):
            o = copy.deepcopy(op)
            o["fault"] = None
            yield o
        if op["query"]["md"]:
            q = op["query"]
            for j in range(len(q["md"])):
                o = copy.deepcopy(op)
                o["query"]["md"] = q["md"][:j] + q["md"][j + 1:]
                o["query"]["md_names"] = q["md_names"][:j] + q["md_names"][j + 1:]
                yield o
        if op["query"]["wire"] != "ast":
            o = copy.deepcopy(op)
            o["query"]["wire"] = "ast"
            yield o
        if op["ld"]:
            o = copy.deepcopy(op)
            o["ld"] = False
            yield o
        if op["slot"] is not None:
            o = copy.deepcopy(op)
            o["slot"] = None
            yield o
        if op.get("share"):
            o = copy.deepcopy(op)
            o["share"] = False
            yield o

    for _ in range(4):
        new = greedy_replace(ops, simpler, lambda o: fails(with_ops(o)))
        if cjson(new) == cjson(ops):
            break
        ops = new
    ops = ddmin_list(ops, lambda o: bool(o) and fails(with_ops(o)))
    return with_ops(ops)


K4_SIGNATURE = "C07:probe-differs:registries-after-abandoned-first-phase"


def signature(case, v):
    if v.get("attributed") == "registries-after-abandoned-first-phase":
        return K4_SIGNATURE
    if v.get("attributed") == "registered-extended-md-after-abandoned-first-phase":
        return "C07:probe-differs:registered-extended-md-after-abandoned-first-phase"
    if case["prop"] == "C02":
        return f"C02:{v['invariant']}:{case['backend']}:{'fault' if v.get('k') is not None else 'nofault'}"
    shape = []
    for op in case["ops"]:
        if op["op"] == "translate":
            f = op.get("fault")
            shape.append(f"{op['query']['name']}[{','.join(sorted(op['query']['md_names']))}]"
                         f"{'@ld' if op['ld'] else ''}{'@slot' if op['slot'] is not None else ''}{'@shared' if op.get('share') else ''}"
                         f"{'!' + f['kind'] if f else ''}")
        else:
            shape.append(op["op"] + ":" + str(op.get("backend", "")))
    return f"C07:{v['invariant']}:" + ">".join(shape)


def describe(case):
    if case["prop"] == "C02":
        return {"backend": case["backend"], "query": case["query"]["name"], "md": case["query"]["md_names"],
                "stale_dir": case["stale"], "errno": case["errno"], "fault_selection": case["select"]}
    out = []
    for op in case["ops"]:
        if op["op"] == "translate":
            out.append({"translate": op["query"]["name"], "md": op["query"]["md_names"], "wire": op["query"]["wire"],
                        "executor": f"slot{op['slot']}" if op["slot"] is not None else "fresh:" + op["backend"],
                        "ld": op["ld"], "fault": op.get("fault"), "built_on_shared_streams": bool(op.get("share"))})
        else:
            out.append({op["op"]: op.get("slot"), "backend": op.get("backend")})
    return {"cfg": case["cfg"], "ops": out}


def evidence(prop, agg):
    if prop == "C02":
        return {"exhaustive": False,
                "explanation": "the fault point is enumerated completely (every open/write/close/chmod call of the write phase) "
                               "for each pool (query, backend, wire) in the directory states 'empty' and 'holds another package' "
                               "(thorough: in all five states); in the quick tier the other three states get every "
                               "open/close/chmod and first/last/4 sampled writes per file. The outer set is the finite pool."}
    return {}
