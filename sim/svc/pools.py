"""Query and metadata pools of the service simulator.

A query is {"name", "backend", "steps": [[operator, lambda-text | dict | list], ...]}.
It is turned into the AST func_adl itself would send (ObjectStream with string lambdas).
Pool content deliberately never contains the character pairs '{{', '{%', '{#'.
"""

JETS = 'e.Jets("AntiKt4EMTopoJets")'

ATLAS_Q = [
    ("a_jet_pt", [["SelectMany", f"lambda e: {JETS}"], ["Select", "lambda j: j.pt()"]]),
    ("a_jet_pt_nested", [["Select", f"lambda e: {JETS}"], ["Select", "lambda js: js.Select(lambda j: j.pt())"]]),
    ("a_jet_pt_eta_dict", [["Select", f"lambda e: {JETS}"],
                           ["Select", "lambda js: {'pt': js.Select(lambda j: j.pt()), 'eta': js.Select(lambda j: j.eta())}"]]),
    ("a_jet_count", [["Select", f"lambda e: {JETS}.Count()"]]),
    ("a_jet_where_count", [["Select", f"lambda e: {JETS}.Where(lambda j: j.pt() > 30.0).Count()"]]),
    ("a_jet_sum", [["Select", f"lambda e: {JETS}.Select(lambda j: j.pt()).Sum()"]]),
    ("a_jet_max", [["Select", f"lambda e: {JETS}.Select(lambda j: j.pt()).Max()"]]),
    ("a_jet_first", [["Select", f"lambda e: {JETS}.First().pt()"]]),
    ("a_jet_first_where", [["Select", f"lambda e: {JETS}.Where(lambda j: j.eta() < 2.0).First().pt()"]]),
    ("a_evt_where", [["Where", f"lambda e: {JETS}.Count() > 1"], ["Select", f"lambda e: {JETS}.Count()"]]),
    ("a_truth_prodvtx", [["SelectMany", 'lambda e: e.TruthParticles("TruthParticles")'],
                         ["Select", "lambda p: p.prodVtx().x()"]]),
    ("a_truth_parent", [["SelectMany", 'lambda e: e.TruthParticles("TruthParticles")'],
                        ["Select", "lambda p: p.parent().pt()"]]),
    ("a_truth_decay_sum", [["Select", 'lambda e: e.TruthParticles("TruthParticles").Select(lambda p: p.decayVtx().y()).Sum()']]),
    ("a_el_mu_tuple", [["Select", 'lambda e: (e.Electrons("Electrons"), e.Muons("Muons"))'],
                       ["Select", "lambda p: (p[0].Select(lambda x: x.pt()), p[1].Select(lambda x: x.eta()))"]]),
    ("a_evtinfo", [["Select", 'lambda e: e.EventInfo("EventInfo").runNumber()']]),
    ("a_met", [["Select", 'lambda e: e.MissingET("MET_Reference_AntiKt4EMTopo").First().met()']]),
    ("a_tracks_2d", [["Select", f"lambda e: {JETS}.Select(lambda j: e.Tracks('InDetTrackParticles').Select(lambda t: t.pt() + j.pt()))"]]),
    ("a_jet_sin", [["SelectMany", f"lambda e: {JETS}"], ["Select", "lambda j: sin(j.phi())"]]),
    ("a_jet_abs_ifexp", [["SelectMany", f"lambda e: {JETS}"], ["Select", "lambda j: j.pt() if abs(j.eta()) < 1.5 else 0.0"]]),
    # a built-in function applied to an int-typed and to a double-typed expression (the function table is module-level)
    ("a_jet_abs_int", [["SelectMany", f"lambda e: {JETS}"], ["Select", "lambda j: abs(j.nTrk())"]]),
    ("a_jet_abs_dbl", [["SelectMany", f"lambda e: {JETS}"], ["Select", "lambda j: abs(j.eta())"]]),
    ("a_jet_attr", [["SelectMany", f"lambda e: {JETS}"], ["Select", "lambda j: j.getAttributeFloat('emf')"]]),
    ("a_jet_color_enum", [["SelectMany", f"lambda e: {JETS}"], ["Where", "lambda j: j.color() == xAOD.Jet.Color.Red"],
                          ["Select", "lambda j: j.pt()"]]),
    ("a_jet_color_out", [["SelectMany", f"lambda e: {JETS}"], ["Select", "lambda j: j.color()"]]),
    ("a_jet_userfunc", [["SelectMany", f"lambda e: {JETS}"], ["Select", "lambda j: my_scale(j.pt(), 2.0)"]]),
    # user functions whose names a backend might one day provide itself (the declaration must keep winning, and without a
    # declaration the call must keep being refused, whatever was imported or translated before)
    ("a_jet_dphi_user", [["SelectMany", f"lambda e: {JETS}"], ["Select", "lambda j: deltaPhi(j.phi(), 0.0)"]]),
    ("a_jet_dr_user", [["SelectMany", f"lambda e: {JETS}"], ["Select", "lambda j: deltaR(j.eta(), j.phi(), 0.0, 0.0)"]]),
    # the elements of a collection returned by a method reach the output: their declared type matters
    ("a_jet_cvals_out", [["Select", f"lambda e: {JETS}.Select(lambda j: j.cvals())"]]),
    ("a_jet_cvals_sum", [["SelectMany", f"lambda e: {JETS}"], ["Select", "lambda j: j.cvals().Sum()"]]),
    ("a_jet_constituents", [["SelectMany", f"lambda e: {JETS}"], ["Select", "lambda j: j.cvals().Count()"]]),
    ("a_forkjets", [["SelectMany", 'lambda e: e.ForkJets("Fork")'], ["Select", "lambda j: j.pt()"]]),
    ("a_jet_aggregate", [["Select", f"lambda e: {JETS}.Select(lambda j: j.pt()).Aggregate(0.0, lambda acc, v: acc + v)"]]),
    ("a_jet_deltar", [["SelectMany", f"lambda e: {JETS}"], ["Select", "lambda j: DeltaR(j.eta(), j.phi(), 0.0, 0.0)"]]),
    ("a_root_named", [["SelectMany", f"lambda e: {JETS}"], ["Select", "lambda j: (j.pt(), j.eta())"],
                      ["AsROOTTTree", ["file.root", "treeme", ["jpt", "jeta"]]]]),
    ("a_const_math_then_jets", [["Select", f"lambda e: (sqrt(2.0), sin(1.0), {JETS}.Count())"]]),
    ("a_jet_sqrt", [["SelectMany", f"lambda e: {JETS}"], ["Select", "lambda j: sqrt(j.pt())"]]),
    # column names where one is another plus digits (generated identifiers are <name><counter>), and many default-named columns
    ("a_cols_pt", [["Select", "lambda e: {'pt': e.Jets('AntiKt4EMTopoJets').Count()}"]]),
    ("a_cols_pt1_pt", [["Select", "lambda e: {'pt1': e.Jets('AntiKt4EMTopoJets').Count(), 'pt': e.Jets('AntiKt4EMTopoJets').Where(lambda x: x.pt() > 1.0).Count()}"]]),
    ("a_cols12", [["Select", "lambda e: (e.Jets('AntiKt4EMTopoJets').Where(lambda x: x.pt() > 0.0).Count(), e.Jets('AntiKt4EMTopoJets').Where(lambda x: x.pt() > 1.0).Count(), e.Jets('AntiKt4EMTopoJets').Where(lambda x: x.pt() > 2.0).Count(), e.Jets('AntiKt4EMTopoJets').Where(lambda x: x.pt() > 3.0).Count(), e.Jets('AntiKt4EMTopoJets').Where(lambda x: x.pt() > 4.0).Count(), e.Jets('AntiKt4EMTopoJets').Where(lambda x: x.pt() > 5.0).Count(), e.Jets('AntiKt4EMTopoJets').Where(lambda x: x.pt() > 6.0).Count(), e.Jets('AntiKt4EMTopoJets').Where(lambda x: x.pt() > 7.0).Count(), e.Jets('AntiKt4EMTopoJets').Where(lambda x: x.pt() > 8.0).Count(), e.Jets('AntiKt4EMTopoJets').Where(lambda x: x.pt() > 9.0).Count(), e.Jets('AntiKt4EMTopoJets').Where(lambda x: x.pt() > 10.0).Count(), e.Jets('AntiKt4EMTopoJets').Where(lambda x: x.pt() > 11.0).Count())"]]),
    # a query so deep that it runs into the interpreter's recursion limit (400 terms): refused in a fresh process, and so it
    # must be after any history (the limit is interpreter-wide state)
    ("a_bad_deep_sum", [["Select", "lambda e: e.Jets('AntiKt4EMTopoJets').Select(lambda j: " + " + ".join(["j.pt()"] * 400) + ")"]]),
    # ones that must be refused
    ("a_bad_slice", [["Select", f"lambda e: {JETS}.Select(lambda j: j.pt())[0:2]"]]),
    ("a_bad_chain_cmp", [["SelectMany", f"lambda e: {JETS}"], ["Where", "lambda j: 1.0 < j.pt() < 3.0"], ["Select", "lambda j: j.pt()"]]),
    ("a_bad_raw_objects", [["Select", f"lambda e: {JETS}"]]),
    ("a_bad_method_on_double", [["SelectMany", f"lambda e: {JETS}"], ["Select", "lambda j: j.pt().eta()"]]),
    ("a_bad_agg_noseed", [["Select", f"lambda e: {JETS}.Select(lambda j: j.pt()).Aggregate(lambda acc, v: acc + v)"]]),
    ("a_bad_colnames", [["SelectMany", f"lambda e: {JETS}"], ["Select", "lambda j: (j.pt(), j.eta())"],
                        ["AsROOTTTree", ["file.root", "treeme", ["only_one"]]]]),
    ("a_bad_collection_args", [["Select", 'lambda e: e.Jets("a", "b").Count()']]),
    ("a_bad_unknown_name", [["SelectMany", f"lambda e: {JETS}"], ["Select", "lambda j: j.pt() + undefined_thing"]]),
]

CMS_AOD_Q = [
    ("c_mu_pt", [["SelectMany", 'lambda e: e.Muons("muons")'], ["Select", "lambda m: m.pt()"]]),
    ("c_mu_nested", [["Select", 'lambda e: e.Muons("muons")'], ["Select", "lambda ms: ms.Select(lambda m: m.eta())"]]),
    ("c_mu_globaltrack", [["SelectMany", 'lambda e: e.Muons("muons")'], ["Select", "lambda m: m.globalTrack().pt()"]]),
    ("c_mu_hitpattern", [["SelectMany", 'lambda e: e.Muons("muons")'],
                         ["Select", "lambda m: m.globalTrack().hitPattern().numberOfValidHits()"]]),
    ("c_mu_ispf", [["Select", 'lambda e: e.Muons("muons").Where(lambda m: m.isPFMuon()).Select(lambda m: m.pt())']]),
    ("c_mu_iso", [["SelectMany", 'lambda e: e.Muons("muons")'], ["Select", "lambda m: m.pfIsolationR04().sumChargedHadronPt"]]),
    ("c_mu_count", [["Select", 'lambda e: e.Muons("muons").Count()']]),
    ("c_mu_nonnull", [["Select", 'lambda e: e.Muons("muons").Where(lambda m: isNonnull(m.globalTrack())).Select(lambda m: m.globalTrack().dxy())']]),
    ("c_el_gsf", [["SelectMany", 'lambda e: e.GsfElectrons("gsfElectrons")'], ["Select", "lambda el: el.gsfTrack().pt()"]]),
    ("c_el_iseb", [["Select", 'lambda e: e.GsfElectrons("gsfElectrons").Where(lambda el: el.isEB()).Count()']]),
    ("c_el_supercluster", [["SelectMany", 'lambda e: e.GsfElectrons("gsfElectrons")'], ["Select", "lambda el: el.superCluster().energy()"]]),
    ("c_tracks_dict", [["Select", 'lambda e: e.Tracks("generalTracks")'],
                       ["Select", "lambda ts: {'pt': ts.Select(lambda t: t.pt()), 'n': ts.Select(lambda t: t.hitPattern().numberOfValidHits())}"]]),
    ("c_vertex", [["SelectMany", 'lambda e: e.Vertex("offlinePrimaryVertices")'], ["Select", "lambda v: v.z()"]]),
    ("c_mu_tracks_two", [["Select", 'lambda e: (e.Muons("muons").Count(), e.Tracks("generalTracks").Count())']]),
    ("c_mu_first", [["Select", 'lambda e: e.Muons("muons").First().pt()']]),
    ("c_forkmuons", [["SelectMany", 'lambda e: e.ForkMuons("forked")'], ["Select", "lambda m: m.pt()"]]),
    ("c_mu_userfunc", [["SelectMany", 'lambda e: e.Muons("muons")'], ["Select", "lambda m: my_scale(m.pt(), 2.0)"]]),
    ("c_mu_abs_int", [["SelectMany", 'lambda e: e.Muons("muons")'], ["Select", "lambda m: abs(m.charge())"]]),
    ("c_mu_abs_dbl", [["SelectMany", 'lambda e: e.Muons("muons")'], ["Select", "lambda m: abs(m.eta())"]]),
    ("c_mu_dphi_user", [["SelectMany", 'lambda e: e.Muons("muons")'], ["Select", "lambda m: deltaPhi(m.phi(), 0.0)"]]),
    ("c_mu_innertrack_hits", [["SelectMany", 'lambda e: e.Muons("muons")'],
                              ["Select", "lambda m: m.innerTrack().hitPattern().numberOfValidHits()"]]),
    ("c_const_math_then_mu", [["Select", 'lambda e: (sqrt(2.0), sin(1.0), e.Muons("muons").Count())']]),
    ("c_mu_sqrt", [["SelectMany", 'lambda e: e.Muons("muons")'], ["Select", "lambda m: sqrt(m.pt()) + sin(m.phi())"]]),
    # column names where one is another plus digits (generated identifiers are <name><counter>), and many default-named columns
    ("c_cols_pt", [["Select", "lambda e: {'pt': e.Muons('muons').Count()}"]]),
    ("c_cols_pt1_pt", [["Select", "lambda e: {'pt1': e.Muons('muons').Count(), 'pt': e.Muons('muons').Where(lambda x: x.pt() > 1.0).Count()}"]]),
    ("c_cols12", [["Select", "lambda e: (e.Muons('muons').Where(lambda x: x.pt() > 0.0).Count(), e.Muons('muons').Where(lambda x: x.pt() > 1.0).Count(), e.Muons('muons').Where(lambda x: x.pt() > 2.0).Count(), e.Muons('muons').Where(lambda x: x.pt() > 3.0).Count(), e.Muons('muons').Where(lambda x: x.pt() > 4.0).Count(), e.Muons('muons').Where(lambda x: x.pt() > 5.0).Count(), e.Muons('muons').Where(lambda x: x.pt() > 6.0).Count(), e.Muons('muons').Where(lambda x: x.pt() > 7.0).Count(), e.Muons('muons').Where(lambda x: x.pt() > 8.0).Count(), e.Muons('muons').Where(lambda x: x.pt() > 9.0).Count(), e.Muons('muons').Where(lambda x: x.pt() > 10.0).Count(), e.Muons('muons').Where(lambda x: x.pt() > 11.0).Count())"]]),
    ("c_bad_deep_sum", [["Select", "lambda e: e.Muons('muons').Select(lambda m: " + " + ".join(["m.pt()"] * 400) + ")"]]),
    ("c_bad_slice", [["Select", 'lambda e: e.Muons("muons").Select(lambda m: m.pt())[0:2]']]),
    ("c_bad_raw", [["Select", 'lambda e: e.Muons("muons")']]),
    ("c_bad_method_on_double", [["SelectMany", 'lambda e: e.Muons("muons")'], ["Select", "lambda m: m.pt().eta()"]]),
]

CMS_MINI_Q = [
    ("m_mu_pt", [["SelectMany", 'lambda e: e.Muons("slimmedMuons")'], ["Select", "lambda m: m.pt()"]]),
    ("m_mu_nested", [["Select", 'lambda e: e.Muons("slimmedMuons")'], ["Select", "lambda ms: ms.Select(lambda m: m.eta())"]]),
    ("m_mu_globaltrack", [["SelectMany", 'lambda e: e.Muons("slimmedMuons")'], ["Select", "lambda m: m.globalTrack().pt()"]]),
    ("m_mu_hitpattern", [["SelectMany", 'lambda e: e.Muons("slimmedMuons")'],
                         ["Select", "lambda m: m.globalTrack().hitPattern().numberOfValidHits()"]]),
    ("m_mu_ispf", [["Select", 'lambda e: e.Muons("slimmedMuons").Where(lambda m: m.isPFMuon()).Select(lambda m: m.pt())']]),
    ("m_mu_count", [["Select", 'lambda e: e.Muons("slimmedMuons").Count()']]),
    ("m_el_gsf", [["SelectMany", 'lambda e: e.Electrons("slimmedElectrons")'], ["Select", "lambda el: el.gsfTrack().pt()"]]),
    ("m_el_iseb", [["Select", 'lambda e: e.Electrons("slimmedElectrons").Where(lambda el: el.isEB()).Count()']]),
    ("m_vertex", [["SelectMany", 'lambda e: e.Vertex("offlineSlimmedPrimaryVertices")'], ["Select", "lambda v: v.z()"]]),
    ("m_mu_el_two", [["Select", 'lambda e: (e.Muons("slimmedMuons").Count(), e.Electrons("slimmedElectrons").Count())']]),
    ("m_mu_first", [["Select", 'lambda e: e.Muons("slimmedMuons").First().pt()']]),
    ("m_forkmuons", [["SelectMany", 'lambda e: e.ForkMuons("forked")'], ["Select", "lambda m: m.pt()"]]),
    ("m_mu_abs_int", [["SelectMany", 'lambda e: e.Muons("slimmedMuons")'], ["Select", "lambda m: abs(m.charge())"]]),
    ("m_mu_abs_dbl", [["SelectMany", 'lambda e: e.Muons("slimmedMuons")'], ["Select", "lambda m: abs(m.eta())"]]),
    ("m_mu_dphi_user", [["SelectMany", 'lambda e: e.Muons("slimmedMuons")'], ["Select", "lambda m: deltaPhi(m.phi(), 0.0)"]]),
    ("m_mu_besttrack_hits", [["SelectMany", 'lambda e: e.Muons("slimmedMuons")'],
                             ["Select", "lambda m: m.bestTrack().hitPattern().numberOfValidHits()"]]),
    ("m_const_math_then_mu", [["Select", 'lambda e: (sqrt(2.0), sin(1.0), e.Muons("slimmedMuons").Count())']]),
    ("m_mu_sqrt", [["SelectMany", 'lambda e: e.Muons("slimmedMuons")'], ["Select", "lambda m: sqrt(m.pt()) + sin(m.phi())"]]),
    # column names where one is another plus digits (generated identifiers are <name><counter>), and many default-named columns
    ("m_cols_pt", [["Select", "lambda e: {'pt': e.Muons('slimmedMuons').Count()}"]]),
    ("m_cols_pt1_pt", [["Select", "lambda e: {'pt1': e.Muons('slimmedMuons').Count(), 'pt': e.Muons('slimmedMuons').Where(lambda x: x.pt() > 1.0).Count()}"]]),
    ("m_cols12", [["Select", "lambda e: (e.Muons('slimmedMuons').Where(lambda x: x.pt() > 0.0).Count(), e.Muons('slimmedMuons').Where(lambda x: x.pt() > 1.0).Count(), e.Muons('slimmedMuons').Where(lambda x: x.pt() > 2.0).Count(), e.Muons('slimmedMuons').Where(lambda x: x.pt() > 3.0).Count(), e.Muons('slimmedMuons').Where(lambda x: x.pt() > 4.0).Count(), e.Muons('slimmedMuons').Where(lambda x: x.pt() > 5.0).Count(), e.Muons('slimmedMuons').Where(lambda x: x.pt() > 6.0).Count(), e.Muons('slimmedMuons').Where(lambda x: x.pt() > 7.0).Count(), e.Muons('slimmedMuons').Where(lambda x: x.pt() > 8.0).Count(), e.Muons('slimmedMuons').Where(lambda x: x.pt() > 9.0).Count(), e.Muons('slimmedMuons').Where(lambda x: x.pt() > 10.0).Count(), e.Muons('slimmedMuons').Where(lambda x: x.pt() > 11.0).Count())"]]),
    ("m_bad_slice", [["Select", 'lambda e: e.Muons("slimmedMuons").Select(lambda m: m.pt())[0:2]']]),
    ("m_bad_raw", [["Select", 'lambda e: e.Muons("slimmedMuons")']]),
]

QUERIES = {"atlas": ATLAS_Q, "cms_aod": CMS_AOD_Q, "cms_miniaod": CMS_MINI_Q}


def _mt(type_string, method, **kw):
    d = {"metadata_type": "add_method_type_info", "type_string": type_string, "method_name": method}
    d.update(kw)
    return d


MY_SCALE = {
    "metadata_type": "add_cpp_function", "name": "my_scale", "include_files": ["cmath"],
    "arguments": ["value", "factor"], "code": ["double result = value * factor;"], "return_type": "double",
}
MY_SCALE_INT = {
    "metadata_type": "add_cpp_function", "name": "my_scale", "include_files": [],
    "arguments": ["value", "factor"], "code": ["int result = (int)(value + factor);"], "return_type": "int",
}

# name -> (metadata dict, backends it is meant for or None for all)
METADATA = {
    # retyping methods that pool queries call (collide with the 'double' fallback)
    "jet_pt_int": (_mt("xAOD::Jet", "pt", return_type="int"), ["atlas"]),
    "jet_pt_float": (_mt("xAOD::Jet", "pt", return_type="float"), ["atlas"]),
    "jet_eta_int": (_mt("xAOD::Jet", "eta", return_type="int"), ["atlas"]),
    "jet_phi_float": (_mt("xAOD::Jet", "phi", return_type="float"), ["atlas"]),
    "jet_pt_obj": (_mt("xAOD::Jet", "pt", return_type="Thing*"), ["atlas"]),
    "jet_color_enum": (_mt("xAOD::Jet", "color", return_type="xAOD::Jet::Color", tree_type="int"), ["atlas"]),
    "jet_color_bool": (_mt("xAOD::Jet", "color", return_type="bool"), ["atlas"]),
    "jet_cvals": (_mt("xAOD::Jet", "cvals", return_type_element="float"), ["atlas"]),
    "jet_cvals_coll": (_mt("xAOD::Jet", "cvals", return_type_element="double", return_type_collection="MyVec*"), ["atlas"]),
    "jet_ntrk_int": (_mt("xAOD::Jet", "nTrk", return_type="int"), ["atlas"]),
    "recomu_charge_int": (_mt("reco::Muon", "charge", return_type="int"), ["cms_aod"]),
    "patmu_charge_int": (_mt("pat::Muon", "charge", return_type="int"), ["cms_miniaod"]),
    # one collection type name with different element types (and on another method)
    "jet_cvals_coll_float": (_mt("xAOD::Jet", "cvals", return_type_element="float", return_type_collection="MyVec*"), ["atlas"]),
    "jet_cvals_coll_ptr": (_mt("xAOD::Jet", "cvals", return_type_element="double*", return_type_collection="MyVec*"), ["atlas"]),
    "jet_ivals_coll_int": (_mt("xAOD::Jet", "ivals", return_type_element="int", return_type_collection="MyVec*"), ["atlas"]),
    # retyping methods that have *default* declarations
    "truth_prodvtx_double": (_mt("xAOD::TruthParticle", "prodVtx", return_type="double"), ["atlas"]),
    "truth_parent_deref": (_mt("xAOD::TruthParticle", "parent", return_type="xAOD::TruthParticle**", deref_count=1), ["atlas"]),
    "truthvtx_x_int": (_mt("xAODTruth::TruthVertex", "x", return_type="int"), ["atlas"]),
    "evtinfo_run_int": (_mt("xAOD::EventInfo", "runNumber", return_type="int"), ["atlas"]),
    "met_met_float": (_mt("xAOD::MissingET", "met", return_type="float"), ["atlas"]),
    "recomu_globaltrack_int": (_mt("reco::Muon", "globalTrack", return_type="int"), ["cms_aod"]),
    "recomu_pt_int": (_mt("reco::Muon", "pt", return_type="int"), ["cms_aod"]),
    "recomu_ispf_double": (_mt("reco::Muon", "isPFMuon", return_type="double"), ["cms_aod"]),
    "recotrack_pt_float": (_mt("reco::Track", "pt", return_type="float"), ["cms_aod"]),
    "gsfel_gsftrack_val": (_mt("reco::GsfElectron", "gsfTrack", return_type="reco::GsfTrack"), ["cms_aod"]),
    "patmu_globaltrack_int": (_mt("pat::Muon", "globalTrack", return_type="int"), ["cms_miniaod"]),
    "patmu_pt_int": (_mt("pat::Muon", "pt", return_type="int"), ["cms_miniaod"]),
    "patel_iseb_double": (_mt("pat::Electron", "isEB", return_type="double"), ["cms_miniaod"]),
    # methods whose return type carries *another* backend's default declarations
    "patmu_besttrack_recotrack": (_mt("pat::Muon", "bestTrack", return_type="reco::Track*"), ["cms_miniaod"]),
    "recomu_innertrack_trackref": (_mt("reco::Muon", "innerTrack", return_type="reco::TrackRef*"), ["cms_aod"]),
    "vertex_z_float": (_mt("reco::Vertex", "z", return_type="float"), ["cms_aod", "cms_miniaod"]),
    # enums
    "enum_color": ({"metadata_type": "define_enum", "namespace": "xAOD.Jet", "name": "Color", "values": ["Red", "Blue"]}, ["atlas"]),
    "enum_color2": ({"metadata_type": "define_enum", "namespace": "xAOD.Jet", "name": "Color", "values": ["Green", "Red"]}, ["atlas"]),
    "enum_color3": ({"metadata_type": "define_enum", "namespace": "xAOD.Jet", "name": "Color", "values": ["Blue", "Green"]}, ["atlas"]),
    "enum_other": ({"metadata_type": "define_enum", "namespace": "reco.Muon", "name": "Kind", "values": ["Global", "Tracker"]}, None),
    # job scripts
    "js_a": ({"metadata_type": "add_job_script", "name": "blk_a", "script": ["# script a line 1", "# script a line 2"], "depends_on": []}, None),
    "js_b_dep_a": ({"metadata_type": "add_job_script", "name": "blk_b", "script": ["# script b"], "depends_on": ["blk_a"]}, None),
    "js_a_conflict": ({"metadata_type": "add_job_script", "name": "blk_a", "script": ["# another a"], "depends_on": []}, None),
    "js_missing_dep": ({"metadata_type": "add_job_script", "name": "blk_c", "script": ["# script c"], "depends_on": ["blk_nowhere"]}, None),
    # job scripts without the optional depends_on key; the same block given twice with different dependencies (legal: the
    # dependencies are combined)
    "js_a_nodep": ({"metadata_type": "add_job_script", "name": "blk_a", "script": ["# script a line 1", "# script a line 2"]}, None),
    "js_a_dep_x": ({"metadata_type": "add_job_script", "name": "blk_a", "script": ["# script a line 1", "# script a line 2"],
                    "depends_on": ["blk_x"]}, None),
    "js_x": ({"metadata_type": "add_job_script", "name": "blk_x", "script": ["# script x"]}, None),
    "js_y_nodep": ({"metadata_type": "add_job_script", "name": "blk_y", "script": ["# script y, with 'quotes' and \"more\""]}, None),
    "js_y_dep_a": ({"metadata_type": "add_job_script", "name": "blk_y", "script": ["# script y, with 'quotes' and \"more\""],
                    "depends_on": ["blk_a"]}, None),
    # injected code
    "inj_1": ({"metadata_type": "inject_code", "name": "inj_one", "body_includes": ["inj/one.h"], "header_includes": ["inj/one_h.h"],
               "private_members": ["int m_inj_one;"], "instance_initialization": ["m_inj_one(1)"], "ctor_lines": ["m_inj_one = 2;"],
               "initialize_lines": ["m_inj_one = 3;"], "link_libraries": ["InjOneLib"]}, None),
    "inj_1_conflict": ({"metadata_type": "inject_code", "name": "inj_one", "body_includes": ["inj/other.h"]}, None),
    "inj_2": ({"metadata_type": "inject_code", "name": "inj_two", "body_includes": ["inj/two.h"]}, None),
    "inj_badfield": ({"metadata_type": "inject_code", "name": "inj_bad", "no_such_field": ["x"]}, None),
    # user functions
    "fn_scale": (MY_SCALE, None),
    "fn_scale_int": (MY_SCALE_INT, None),
    "fn_dphi": ({"metadata_type": "add_cpp_function", "name": "deltaPhi", "include_files": ["TVector2.h"], "arguments": ["phi1", "phi2"],
                 "code": ["double result = TVector2::Phi_mpi_pi(phi1 - phi2);"], "return_type": "double"}, None),
    "fn_dr": ({"metadata_type": "add_cpp_function", "name": "deltaR", "include_files": ["cmath"], "arguments": ["eta1", "phi1", "eta2", "phi2"],
               "code": ["double result = std::sqrt((eta1 - eta2) * (eta1 - eta2) + (phi1 - phi2) * (phi1 - phi2));"], "return_type": "double"}, None),
    # collections declared through metadata
    "coll_forkjets": ({"metadata_type": "add_atlas_event_collection_info", "name": "ForkJets", "include_files": ["xAODJet/JetContainer.h"],
                       "container_type": "xAOD::JetContainer", "element_type": "xAOD::Jet", "contains_collection": True,
                       "link_libraries": ["xAODJet"]}, ["atlas"]),
    "coll_jets_replaced": ({"metadata_type": "add_atlas_event_collection_info", "name": "Jets", "include_files": ["my/FatJets.h"],
                            "container_type": "my::FatJetContainer", "element_type": "my::FatJet", "contains_collection": True},
                           ["atlas"]),
    "coll_forkmuons_aod": ({"metadata_type": "add_cms_aod_event_collection_info", "name": "ForkMuons",
                            "include_files": ["DataFormats/MuonReco/interface/Muon.h"], "container_type": "reco::MuonCollection",
                            "element_type": "reco::Muon", "contains_collection": True, "element_pointer": False}, ["cms_aod"]),
    "coll_muons_replaced_aod": ({"metadata_type": "add_cms_aod_event_collection_info", "name": "Muons",
                                 "include_files": ["my/Mu.h"], "container_type": "my::MuCollection",
                                 "element_type": "my::Mu", "contains_collection": True, "element_pointer": False}, ["cms_aod"]),
    "coll_forkmuons_mini": ({"metadata_type": "add_cms_miniaod_event_collection_info", "name": "ForkMuons",
                             "include_files": ["DataFormats/PatCandidates/interface/Muon.h"], "container_type": "pat::MuonCollection",
                             "element_type": "pat::Muon", "contains_collection": True, "element_pointer": False}, ["cms_miniaod"]),
    "coll_extra_key": ({"metadata_type": "add_atlas_event_collection_info", "name": "BadJets", "include_files": [],
                        "container_type": "x", "element_type": "y", "contains_collection": True, "bogus_key": 1}, None),
    # docker (extended) metadata: known only to LocalDataset-style translations
    "docker_a": ({"metadata_type": "docker", "image": "override/image:a"}, None),
    "docker_b": ({"metadata_type": "docker", "image": "override/image:b"}, None),
    # malformed / unknown
    "unknown_type": ({"metadata_type": "no_such_metadata_type", "x": 1}, None),
    "missing_type": ({"name": "nothing"}, None),
}

# metadata that make otherwise failing pool queries translate
NEEDS = {
    "a_jet_color_enum": ["enum_color", "jet_color_enum"],
    "a_jet_color_out": ["enum_color", "jet_color_enum"],
    "a_jet_userfunc": ["fn_scale"],
    "c_mu_userfunc": ["fn_scale"],
    "a_jet_constituents": ["jet_cvals"],
    "a_jet_cvals_out": ["jet_cvals_coll"],
    "a_jet_cvals_sum": ["jet_cvals_coll"],
    "a_jet_abs_int": ["jet_ntrk_int"],
    "c_mu_abs_int": ["recomu_charge_int"],
    "m_mu_abs_int": ["patmu_charge_int"],
    "a_jet_dphi_user": ["fn_dphi"],
    "a_jet_dr_user": ["fn_dr"],
    "c_mu_dphi_user": ["fn_dphi"],
    "m_mu_dphi_user": ["fn_dphi"],
    "a_forkjets": ["coll_forkjets"],
    "c_forkmuons": ["coll_forkmuons_aod"],
    "m_forkmuons": ["coll_forkmuons_mini"],
    "m_mu_besttrack_hits": ["patmu_besttrack_recotrack"],
    "c_mu_innertrack_hits": ["recomu_innertrack_trackref"],
}


def md_for_backend(backend):
    return [k for k, (_, bs) in METADATA.items() if bs is None or backend in bs]


def md_foreign(backend):
    return [k for k, (_, bs) in METADATA.items() if bs is not None and backend not in bs]


# alternative declarations of the same thing (used when a history keeps translating one query with varying metadata)
VARIANTS = {
    "enum_color": ["enum_color2", "enum_color3"],
    "jet_color_enum": ["jet_color_bool"],
    "fn_scale": ["fn_scale_int"],
    "jet_cvals": ["jet_cvals_coll"],
    "jet_cvals_coll": ["jet_cvals_coll_float", "jet_cvals_coll_ptr", "jet_cvals"],
    "patmu_besttrack_recotrack": ["patmu_globaltrack_int"],
    "recomu_innertrack_trackref": ["recomu_globaltrack_int"],
}


# metadata that usually travels together: (companion, probability) - e.g. a block and the block it depends on, the same block
# a second time with other dependencies, the same inject block twice
COMPANIONS = {
    "js_a_dep_x": [("js_x", 0.85), ("js_a_nodep", 0.6), ("js_a", 0.2)],
    "js_a_nodep": [("js_a_dep_x", 0.3), ("js_x", 0.3)],
    "js_y_dep_a": [("js_a_nodep", 0.6), ("js_a", 0.3), ("js_y_nodep", 0.5)],
    "js_b_dep_a": [("js_a", 0.5), ("js_a_nodep", 0.4)],
    "inj_1": [("inj_1", 0.15)],
    "fn_scale": [("fn_scale", 0.1)],
}
