"""In-process pieces of the service simulator: build a query AST the way func_adl sends it,
translate it with the real executor, normalise the result, inject faults at the seams.

Nothing here is imported by /repo; the seams used are builtins.open / os.chmod (patched
only while a fault is armed), sys.settrace, and a wrapper around cpp_vars.unique_name that
is installed before any other func_adl_xAOD module is imported.
"""
import ast
import builtins
import errno
import hashlib
import io
import logging
import os
import re
import shutil
import stat
import sys
import tempfile
import traceback

REPO_PKG = None  # directory of func_adl_xAOD, set in install()

_generated = []  # every name unique_name ever produced in this process, in order
_installed = False


def install():
    """Wrap unique_name *before* the modules that do `from ...cpp_vars import unique_name`
    are imported, so that the harness knows exactly which identifiers were generated."""
    global _installed, REPO_PKG
    if _installed:
        return
    stand_in = os.path.join(os.path.dirname(os.path.dirname(os.path.abspath(__file__))), "stand_in")
    if stand_in not in sys.path:
        sys.path.insert(0, stand_in)
    import func_adl_xAOD
    import func_adl_xAOD.common.cpp_vars as cv

    REPO_PKG = os.path.dirname(os.path.abspath(func_adl_xAOD.__file__))
    # The pristine process has done what a user's fresh interpreter has done - `import func_adl_xAOD` - and nothing more.
    # Whatever the package imports lazily (the miniAOD backend, the local-dataset module, backend modules pulled in by
    # metadata processing) is imported by the history or the reference when they first need it, so that import-time
    # side effects of those modules are part of the history, as they are in a real process.
    # VERIF_PREIMPORT=1 restores the old model (everything imported up front) for comparison.
    if os.environ.get("VERIF_PREIMPORT"):
        import func_adl_xAOD.atlas.xaod.executor  # noqa
        import func_adl_xAOD.cms.aod.executor  # noqa
        import func_adl_xAOD.cms.miniaod.executor  # noqa
        import func_adl_xAOD.common.local_dataset  # noqa
    import qastle  # noqa

    orig = cv.unique_name

    def unique_name(name, is_class_var=False):
        r = orig(name, is_class_var)
        _generated.append(r)
        return r

    # every module that did `from ...cpp_vars import unique_name` holds its own reference
    n_patched = 0
    for mname, mod in list(sys.modules.items()):
        if mname.startswith("func_adl_xAOD") and getattr(mod, "unique_name", None) is orig:
            mod.unique_name = unique_name
            n_patched += 1
    assert n_patched >= 5, n_patched
    logging.disable(logging.CRITICAL)
    _installed = True


def executor_class(backend):
    if backend == "atlas":
        from func_adl_xAOD.atlas.xaod.executor import atlas_xaod_executor
        return atlas_xaod_executor
    if backend == "cms_aod":
        from func_adl_xAOD.cms.aod.executor import cms_aod_executor
        return cms_aod_executor
    if backend == "cms_miniaod":
        from func_adl_xAOD.cms.miniaod.executor import cms_miniaod_executor
        return cms_miniaod_executor
    raise ValueError(backend)


def build_ast(query, stream_cache=None):
    """query: {"steps": [...], "md": [[pos, dict], ...], "wire": "ast"|"qastle"}

    stream_cache (dict): ObjectStream objects of this process keyed by their step prefix. With it, queries are
    built the way a user builds them from a common base (`base = ds.Where(...); q1 = base.Select(..); q2 = base.Select(..)`)
    or runs the same query object twice: the ASTs *share node objects*, which the executor rewrites in place."""
    import json as _json
    from func_adl import EventDataset

    if query.get("wire") == "qastle":
        # the query arrives as text from another process: nothing can be shared with earlier queries
        stream_cache = None

    class _capture(EventDataset):
        async def execute_result_async(self, a, title):
            return a

    steps = [list(s) for s in query["steps"]]
    # metadata goes in at its position, later positions first so indices stay valid
    for pos, md in sorted(query.get("md", []), key=lambda p: -p[0]):
        steps.insert(min(pos, len(steps)), ["MetaData", md])
    key = ()
    if stream_cache is not None and key in stream_cache:
        s = stream_cache[key]
    else:
        s = _capture()
        if stream_cache is not None:
            stream_cache[key] = s
    for op, arg in steps:
        key = key + (_json.dumps([op, arg], sort_keys=True),)
        if stream_cache is not None and key in stream_cache:
            s = stream_cache[key]
            continue
        if op == "AsROOTTTree":
            s = s.AsROOTTTree(arg[0], arg[1], arg[2])
        elif op == "MetaData":
            s = s.MetaData(arg)
        else:
            s = getattr(s, op)(arg)
        if stream_cache is not None:
            stream_cache[key] = s
    a = s.value()
    if query.get("wire") == "qastle":
        import qastle
        a = qastle.text_ast_to_python_ast(qastle.python_ast_to_text_ast(a)).body[0].value
    return a


# ---------------------------------------------------------------- normalisation

_HEX = re.compile(r"0x[0-9a-fA-F]+")
# func_adl's own lambda-argument renaming counter (function_simplifier: arg_<n>) is a generated-name
# numbering too; it reaches the output inside the text of the First() error message
_ARGN = re.compile(r"(?<![A-Za-z0-9_])arg_[0-9]+(?![A-Za-z0-9_])")


def normalise(texts, names, masks, code=False):
    """texts: list of str. Replace every generated name (whole word) by base#k with k the
    order of first appearance over the concatenation; mask paths and addresses.
    code=True: the texts are generated source files - string literals are left alone (a bank called "muons10" is
    the query's own text even when the translator happens to have generated an identifier muons10 earlier)."""
    names = sorted(set(names), key=len, reverse=True)
    out = []
    order = {}
    if names:
        lit = r'("(?:[^"\\\n]|\\.)*")|' if code else "()"
        rx = re.compile(lit + r"(?<![A-Za-z0-9_])(" + "|".join(re.escape(n) for n in names) + r")(?![A-Za-z0-9_])")

        def sub(m):
            if m.group(1):
                return m.group(1)
            n = m.group(2)
            if n not in order:
                order[n] = len(order)
            return f"{n.rstrip('0123456789')}#{order[n]}"
    arg_order = {}

    def sub_arg(m):
        n = m.group(0)
        if n not in arg_order:
            arg_order[n] = len(arg_order)
        return f"arg_#{arg_order[n]}"

    for t in texts:
        for path, token in masks:
            t = t.replace(path, token)
        if names:
            t = rx.sub(sub, t)
        t = _ARGN.sub(sub_arg, t)
        t = _HEX.sub("0xADDR", t)
        out.append(t)
    return out


def import_time_names():
    mec = sys.modules.get("func_adl_xAOD.cms.miniaod.event_collections")
    if mec is None:
        return []
    t = getattr(mec.cms_event_collection_coder, "t_name", None)  # existed before the miniAOD token fix
    return [t] if t else []


# ---------------------------------------------------------------- fault seams

class FaultFired(Exception):
    pass


class IOPlan:
    """Counts the file-system calls of the write phase under `root`; fails call #k."""

    def __init__(self, root, k=None, err="ENOSPC"):
        self.root = os.path.realpath(str(root))
        self.k = k
        self.err = err
        self.calls = []  # (kind, relpath)
        self.fired = None

    def _hit(self, kind, rel):
        idx = len(self.calls)
        self.calls.append((kind, rel))
        if self.k is not None and idx == self.k and self.fired is None:
            self.fired = (kind, rel)
            err = "EMFILE" if (kind == "tread" and self.err == "ENOSPC") else self.err  # a read does not run out of space
            raise OSError(getattr(errno, err), os.strerror(getattr(errno, err)), rel)

    def under(self, path):
        try:
            p = os.path.realpath(os.fspath(path))
        except TypeError:
            return None
        if p == self.root or p.startswith(self.root + os.sep):
            return os.path.relpath(p, self.root)
        return None


class _FaultyFile:
    def __init__(self, f, plan, rel):
        self._f = f
        self._plan = plan
        self._rel = rel

    def write(self, data):
        self._plan._hit("write", self._rel)
        return self._f.write(data)

    def writelines(self, lines):
        for ln in lines:
            self.write(ln)

    def close(self):
        try:
            self._plan._hit("close", self._rel)
        finally:
            self._f.close()

    def __enter__(self):
        return self

    def __exit__(self, *a):
        self.close()

    def __getattr__(self, n):
        return getattr(self._f, n)


class io_seam:
    def __init__(self, plan):
        self.plan = plan

    def __enter__(self):
        plan = self.plan
        self._open = builtins.open
        self._chmod = os.chmod
        self._io_open = io.open
        real_open = self._open

        import func_adl_xAOD
        tmpl_root = os.path.join(os.path.dirname(os.path.realpath(func_adl_xAOD.__file__)), "template") + os.sep

        def open_(file, mode="r", *a, **kw):
            rel = plan.under(file) if isinstance(file, (str, bytes, os.PathLike)) else None
            if rel is not None and any(c in mode for c in "wax+"):
                plan._hit("open", rel)
                return _FaultyFile(real_open(file, mode, *a, **kw), plan, rel)
            if rel is None and isinstance(file, (str, os.PathLike)) and not any(c in mode for c in "wax+"):
                # a template file being read (EMFILE / EIO on the read side of the write phase)
                fp = os.path.realpath(os.fspath(file))
                if fp.startswith(tmpl_root):
                    plan._hit("tread", "template:" + os.path.basename(fp))
            return real_open(file, mode, *a, **kw)

        real_chmod = self._chmod

        def chmod_(path, mode, *a, **kw):
            rel = plan.under(path)
            if rel is not None:
                plan._hit("chmod", rel)
            return real_chmod(path, mode, *a, **kw)

        builtins.open = open_
        io.open = open_
        os.chmod = chmod_
        return plan

    def __exit__(self, *a):
        builtins.open = self._open
        io.open = self._io_open
        os.chmod = self._chmod


class AbortPlan:
    """Raise `exc` at the n-th line event executed inside /repo's package, but never while a
    reset()/define_default_* frame is on the stack (an abort inside the clean-up itself cannot
    be survived by any implementation and is outside the property)."""

    EXC = {"RecursionError": RecursionError, "MemoryError": MemoryError, "KeyboardInterrupt": KeyboardInterrupt}

    def __init__(self, n=None, exc="RecursionError", wide=False):
        """wide: count (and abort at) line events in func_adl / jinja2 / qastle frames too, not only in /repo"""
        self.n = n
        self.exc = exc
        self.wide = wide
        self.count = 0
        self.fired = None

    def _in_cleanup(self, frame):
        f = frame
        while f is not None:
            nm = f.f_code.co_name
            if nm == "reset" or nm.startswith("define_default") or nm.startswith("_reset"):
                return True
            if nm == "<module>":
                # a lazily imported module is being executed: an abort in the middle of an import is the interpreter's
                # import machinery's business (half-initialised modules), not translator state
                return True
            f = f.f_back
        return False

    @staticmethod
    def _in_critical_section(frame):
        """Some frame on the stack is a method of an object whose own lock is held right now (jinja2's LRUCache
        does `with self._wlock:` around every access to the module-global lexer cache). An exception raised at a
        line event there can land on the instructions that leave the `with` block - they belong to the `with`
        line and are not covered by the block's exception table - so the lock is never released and the *next*
        translation of the process blocks forever in the dependency. That deadlock is CPython's / jinja2's
        handling of asynchronous exceptions, not the translator's state: the abort is delivered at the next line
        event outside the critical section instead."""
        f = frame
        while f is not None:
            s = f.f_locals.get("self") if "self" in f.f_code.co_varnames else None
            if s is not None:
                for a in ("_wlock", "_lock"):
                    lk = s.__dict__.get(a) if hasattr(s, "__dict__") else None
                    if lk is not None and hasattr(lk, "locked") and lk.locked():
                        return True
            f = f.f_back
        return False

    def _local(self, frame, event, arg):
        if event == "line":
            self.count += 1
            if (self.n is not None and self.fired is None and self.count > self.n and not self._in_cleanup(frame)
                    and not (self.wide and self._in_critical_section(frame))):
                fn = frame.f_code.co_filename
                self.fired = (os.path.relpath(fn, REPO_PKG) if fn.startswith(REPO_PKG) else "dep:" + "/".join(fn.split("/")[-2:]),
                              frame.f_lineno)
                sys.settrace(None)
                raise self.EXC[self.exc](f"injected {self.exc} (simulated abort)")
        return self._local

    def _global(self, frame, event, arg):
        fn = frame.f_code.co_filename
        if fn.startswith(REPO_PKG) or (self.wide and ("/func_adl/" in fn or "/jinja2/" in fn or "/qastle/" in fn)):
            return self._local
        return None

    def __enter__(self):
        sys.settrace(self._global)
        return self

    def __exit__(self, *a):
        sys.settrace(None)


class TemplateDirMissing:
    """While armed, the template directory of the package cannot be found (os.path.isdir says no): the
    installation is incomplete / the working directory is wrong. The translation fails in its write phase."""

    def __init__(self):
        self.fired = 0

    def __enter__(self):
        self._isdir = os.path.isdir
        real = self._isdir

        def isdir(p):
            try:
                sp = os.fspath(p)
            except TypeError:
                return real(p)
            if "func_adl_xAOD/template" in str(sp):
                self.fired += 1
                return False
            return real(p)

        os.path.isdir = isdir
        return self

    def __exit__(self, *a):
        os.path.isdir = self._isdir


# ---------------------------------------------------------------- one translation

def _chain_has(exc, cls):
    seen = set()
    while exc is not None and id(exc) not in seen:
        seen.add(id(exc))
        if isinstance(exc, cls):
            return True
        exc = exc.__cause__ or exc.__context__
    return False


def translate(exe, query, outdir, ld=False, io_plan=None, abort_plan=None, extra_seam=None, stream_cache=None, apply_only=False,
              wipe_registries_after=False, forget_registered_md_after=False):
    """Run one translation with the real executor. Returns a JSON-able outcome."""
    from pathlib import Path
    n0 = len(_generated)
    outdir = Path(outdir)
    info = None
    err = None
    try:
        a = build_ast(query, stream_cache)
    except Exception as e:  # a query the func_adl front end itself refuses
        return {"outcome": "raise", "type": "frontend:" + type(e).__name__, "msg": _HEX.sub("0xADDR", str(e))[:300], "oserror": False,
                "lines": 0, "io_calls": []}
    seams = []
    if io_plan is not None:
        seams.append(io_seam(io_plan))
    if abort_plan is not None:
        seams.append(abort_plan)
    if extra_seam is not None:
        seams.append(extra_seam)
    try:
        for s in seams:
            s.__enter__()
        try:
            if ld:
                from func_adl_xAOD.common.local_dataset import DockerImageSpecification
                exe.add_extended_md({"docker": DockerImageSpecification("dataset/image:tag")})
            if apply_only:
                # the caller only ran the first phase (validation, hashing, ...) and never asked for the package
                exe.apply_ast_transformations(a)
                if wipe_registries_after:
                    # attribution re-run only (engine.execute): does the difference come from what the abandoned
                    # translation left in the two process-wide registries, or from something else?
                    import func_adl_xAOD.common.cpp_types as ctyp
                    ctyp.g_method_type_dict = {}
                    ctyp.g_toplevel_ns = {}
                if forget_registered_md_after:
                    exe._extended_md = {}  # attribution re-run for K5 only
                return {"outcome": "abandoned", "lines": 0, "io_calls": []}
            info = exe.write_cpp_files(exe.apply_ast_transformations(a), outdir)
        finally:
            for s in reversed(seams):
                s.__exit__(None, None, None)
    except BaseException as e:  # noqa - injected KeyboardInterrupt / MemoryError are part of the model
        err = e
    # every name ever generated in this process: a query object translated for the second time legitimately carries
    # names generated during its first translation (e.g. a miniAOD token). A name leaking from an unrelated query
    # still changes the order-of-first-appearance numbering and is seen.
    names = list(_generated) + import_time_names()
    del n0
    masks = [(str(outdir), "<OUT>"), (os.path.realpath(str(outdir)), "<OUT>")]
    res = {"lines": abort_plan.count if abort_plan is not None else 0,
           "io_calls": [list(c) for c in io_plan.calls] if io_plan is not None else []}
    if err is not None:
        msg = normalise([str(err)], names, masks)[0]
        res.update({"outcome": "raise", "type": type(err).__name__, "msg": msg[:2000],
                    "oserror": _chain_has(err, OSError),
                    "tb_tail": traceback.format_exception(type(err), err, err.__traceback__)[-3:]})
        return res
    files = {}
    raw = {}
    present = {}
    for fn in info.all_filenames:
        p = outdir / fn
        if p.is_file():
            with builtins.open(p, "r", errors="replace") as f:
                raw[fn] = f.read()
            present[fn] = True
        else:
            raw[fn] = ""
            present[fn] = False
    norm = normalise([raw[fn] for fn in info.all_filenames], names, masks, code=True)
    for fn, t in zip(info.all_filenames, norm):
        files[fn] = t
    ms = outdir / info.main_script
    mode = stat.S_IMODE(os.stat(ms).st_mode) if ms.exists() else None
    rr = info.result_rep
    docker = [m.image for m in exe.extended_md("docker")] if ld else None
    res.update({
        "outcome": "ok",
        "files": files,
        "present": present,
        "main_script": info.main_script,
        "all_filenames": list(info.all_filenames),
        "mode": mode,
        "result": [getattr(rr, "treename", None), str(getattr(rr, "filename", None))],
        "output_path_ok": os.path.realpath(str(info.output_path)) == os.path.realpath(str(outdir)),
        "docker": docker,
        "extra_files": sorted(set(os.listdir(outdir)) - set(info.all_filenames)),
    })
    return res


def digest_outcome(o):
    """Short comparable form (for logs)."""
    if o["outcome"] == "raise":
        return {"outcome": "raise", "type": o["type"], "msg": hashlib.sha256(o["msg"].encode()).hexdigest()[:10]}
    if o["outcome"] == "abandoned":
        return {"outcome": "abandoned"}
    h = hashlib.sha256()
    for fn in o["all_filenames"]:
        h.update(fn.encode())
        h.update(o["files"][fn].encode())
    return {"outcome": "ok", "files": h.hexdigest()[:12], "mode": o["mode"], "result": o["result"], "docker": o["docker"]}


def compare_outcomes(ref, got):
    """None if equal up to name numbering, else a short description of the first difference."""
    if ref["outcome"] != got["outcome"]:
        return (f"fresh process: {ref['outcome']}"
                + (f" ({ref.get('type')}: {ref.get('msg','')[:160]})" if ref["outcome"] == "raise" else "")
                + f"; after history: {got['outcome']}"
                + (f" ({got.get('type')}: {got.get('msg','')[:160]})" if got["outcome"] == "raise" else ""))
    if ref["outcome"] == "raise":
        if ref["type"] != got["type"]:
            return f"exception type differs: fresh {ref['type']} vs after history {got['type']}"
        if ref["type"] in ("RecursionError", "MemoryError") and ref["type"] == got["type"]:
            return None  # where exactly the interpreter gives up is not part of the error (the text varies with the depth)
        if ref["msg"] != got["msg"]:
            return f"exception message differs: fresh {ref['msg'][:200]!r} vs after history {got['msg'][:200]!r}"
        return None
    for k in ("all_filenames", "main_script", "mode", "result", "docker", "present", "output_path_ok"):
        if ref[k] != got[k]:
            return f"{k} differs: fresh {ref[k]!r} vs after history {got[k]!r}"
    for fn in ref["all_filenames"]:
        a, b = ref["files"][fn], got["files"][fn]
        if a != b:
            la, lb = a.split("\n"), b.split("\n")
            for i in range(max(len(la), len(lb))):
                x = la[i] if i < len(la) else "<EOF>"
                y = lb[i] if i < len(lb) else "<EOF>"
                if x != y:
                    return f"{fn} line {i+1}: fresh {x.strip()!r} vs after history {y.strip()!r}"
    return None


def abstract_state(slots):
    """Fingerprint of the process-global and per-executor state (distinct-state measure)."""
    import func_adl_xAOD.common.cpp_types as ctyp
    from func_adl_xAOD.common.executor import executor

    # a measure only, never an oracle: it reads private attributes and must not fail the run when a tree under test
    # has renamed or dropped one of them
    try:
        return _abstract_state(slots, ctyp, executor)
    except Exception:  # noqa
        return "state-not-readable"


def _abstract_state(slots, ctyp, executor):
    reg = sorted((t, m, str(i.r_type), i.deref_depth) for t, d in ctyp.g_method_type_dict.items() for m, i in d.items())

    def ns_tree(ns):
        return [ns.ns_name, sorted((e.name, tuple(e.values)) for e in ns.enums.values()),
                [ns_tree(s) for _, s in sorted(ns.names_spaces.items())]]

    enums = [ns_tree(n) for _, n in sorted(ctyp.g_toplevel_ns.items())]
    dflt = executor.__init__.__defaults__
    default_md = sorted(dflt[0].keys()) if dflt and isinstance(dflt[0], dict) else []
    sl = []
    for k in sorted(slots):
        e = slots[k]["exe"]
        sl.append([k, slots[k]["backend"], [b.name for b in e._job_option_blocks], [b.name for b in e._inject_blocks],
                   sorted(e._extended_md.keys()), {k2: len(v) for k2, v in e._found_extended_md.items()}])
    return hashlib.sha256(repr([reg, enums, default_md, sl]).encode()).hexdigest()[:16]


def make_outdir(root, tag):
    d = os.path.join(root, tag)
    os.makedirs(d, exist_ok=True)
    return d
