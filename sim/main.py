"""Entry point: ./check <ID> ..."""
import importlib
import sys

ENGINE_OF = {"C07": "sim.svc.engine", "C02": "sim.svc.engine", "C16": "sim.run.engine", "C17": "sim.loc.engine",
             "C05": "sim.job.engine", "C06": "sim.job.engine"}


def main():
    if len(sys.argv) < 2 or sys.argv[1] not in ENGINE_OF:
        print(f"usage: check <{'|'.join(sorted(ENGINE_OF))}> [--tier quick|thorough] [--seed N] [--replay FILE]")
        return 2
    prop = sys.argv[1]
    from sim.core import batch
    engine = importlib.import_module(ENGINE_OF[prop])
    return batch.main(engine, prop, sys.argv[2:])


if __name__ == "__main__":
    sys.exit(main())
