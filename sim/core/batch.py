"""Batch driver shared by all engines.

An *engine* is a module with:

  NAME                       str
  PROPERTIES                 dict  property id -> {"level": ..., "rule": ...}
  ISOLATE                    bool  execute every case in its own forked process
  CASE_TIMEOUT               float seconds (hard) per case
  prepare(prop, tier, seed)  called once in the parent before any fork
  plan(prop, tier, seed)     -> int  number of items of this batch
  make_case(prop, tier, seed, i) -> case (JSON-able dict; pure function of its arguments)
  execute(case)              -> {"log": [...], "violations": [...], "stats": {...},
                                 "states": [...], "nontrivial": [...]}
  shrink(case, fails)        -> smaller case for which fails(case) is still true
  signature(case, violation) -> str  (stable identity of a minimised violation)
  describe(case)             -> JSON-able short description for evidence samples
  evidence(prop, agg)        -> dict merged into the evidence coverage block

Everything random is drawn inside make_case from run_rng(NAME, seed, i).
"""
import argparse
import collections
import json
import os
import subprocess
import sys
import time
import traceback

from . import isolate
from .isolate import HarnessError
from .util import cjson, fingerprint

VERIF = os.path.dirname(os.path.dirname(os.path.dirname(os.path.abspath(__file__))))
REPLAYS = os.environ.get("VERIF_REPLAYS") or os.path.join(VERIF, "replays")  # VERIF_REPLAYS: several checks side by side (tools)
EVIDENCE = os.path.join(VERIF, "evidence")
KNOWN = os.path.join(VERIF, "known_findings.json")


def load_known():
    if os.environ.get("VERIF_NO_KNOWN"):
        # development aid: report recorded findings as plain violations (used to validate a candidate repair)
        return {"findings": [], "fixed": []}
    try:
        with open(KNOWN) as f:
            return json.load(f)
    except FileNotFoundError:
        return {"findings": [], "fixed": []}


def _exec_case(engine, case):
    res = engine.execute(case)
    res.setdefault("violations", [])
    res.setdefault("stats", {})
    res.setdefault("states", [])
    res.setdefault("nontrivial", [])
    res.setdefault("log", [])
    return res


def exec_case_isolated(engine, case):
    if engine.ISOLATE:
        return isolate.call_isolated(_exec_case, (engine, case), timeout=engine.CASE_TIMEOUT)
    return _exec_case(engine, case)


def _chunk_worker(engine, prop, tier, seed, idxs, keep_cases):
    out = []
    for i in idxs:
        case = engine.make_case(prop, tier, seed, i)
        res = exec_case_isolated(engine, case)
        viols = [v for v in res["violations"] if v["property"] == prop]
        rec = {
            "i": i,
            "fp": fingerprint(res["log"]),
            "stats": res["stats"],
            "states": res["states"],
            "nontrivial": res["nontrivial"],
            "violations": viols,
            "steps": res.get("steps", len(res["log"])),
        }
        if viols or i in keep_cases:
            rec["case"] = case
            rec["desc"] = engine.describe(case)
        if keep_cases == "all":
            rec["log"] = res["log"]
        out.append(rec)
    return out


class Agg:
    def __init__(self):
        self.stats = collections.Counter()
        self.states = set()
        self.nontrivial = set()
        self.fps = {}
        self.steps = 0
        self.samples = []
        self.violating = []
        self.n = 0

    def add(self, rec):
        self.n += 1
        self.fps[rec["i"]] = rec["fp"]
        for k, v in rec["stats"].items():
            self.stats[k] += v
        self.states.update(rec["states"])
        self.nontrivial.update(rec["nontrivial"])
        self.steps += rec["steps"]
        if "desc" in rec and len(self.samples) < 6 and not rec["violations"]:
            self.samples.append(rec["desc"])
        if rec["violations"]:
            self.violating.append(rec)


def run_items(engine, prop, tier, seed, n_items, jobs, wall_cap, stop_on_violation=True, keep="samples", start=0):
    chunk = max(1, getattr(engine, "CHUNKS", {}).get(prop, getattr(engine, "CHUNK", 8)))
    case_timeout = getattr(engine, "CASE_TIMEOUTS", {}).get(prop, engine.CASE_TIMEOUT)
    idx_chunks = [list(range(a, min(a + chunk, start + n_items))) for a in range(start, start + n_items, chunk)]
    if keep == "all":
        keep_cases = "all"
    else:
        step = max(1, n_items // 5)
        keep_cases = set(range(start, start + n_items, step))
    args = [(engine, prop, tier, seed, c, keep_cases) for c in idx_chunks]
    agg = Agg()
    known_sigs = {k["signature"] for k in load_known().get("findings", []) if k["property"] == prop}
    unknown = [0]

    def on_result(idx, recs):
        for rec in recs:
            agg.add(rec)
            if any(engine.signature(rec["case"], v) not in known_sigs for v in rec["violations"]):
                unknown[0] += 1
        # known findings never cut the exploration short
        if stop_on_violation and unknown[0] >= 24:
            return "stop"

    timeout = case_timeout * chunk + 30
    results, done = isolate.map_isolated(
        _chunk_worker, args, jobs=jobs, timeout=timeout, wall_cap=wall_cap, on_result=on_result
    )
    return agg, results


def minimise(engine, prop, case, violation, budget_s=150.0):
    """Greedy shrinking while the same (property, invariant) violation persists."""
    t0 = time.monotonic()
    attempts = [0]
    target = (violation["property"], violation["invariant"])

    def fails(c):
        if time.monotonic() - t0 > budget_s:
            return None
        attempts[0] += 1
        try:
            res = exec_case_isolated(engine, c)
        except HarnessError:
            return None
        for v in res["violations"]:
            if (v["property"], v["invariant"]) == target:
                return v
        return None

    small = engine.shrink(case, fails)
    t0 = time.monotonic()  # the final confirmation is never cut by the shrinking budget
    v = fails(small)
    if v is None:
        # never report a reduced case that does not fail: fall back to the original
        small, v = case, violation
    return small, v, attempts[0]


def _n_ops(case):
    n = len(case.get("ops") or []) + len(case.get("faults") or [])
    for g in case.get("groups") or []:
        n += len(g)
    return n


def write_replay(engine, prop, seed, rec, small, v, orig_ops, attempts):
    os.makedirs(REPLAYS, exist_ok=True)
    path = os.path.join(REPLAYS, f"{prop}-{seed}-{rec['i']}.json")
    doc = {
        "property": prop,
        "engine": engine.NAME,
        "seed": seed,
        "run": rec["i"],
        "case": small,
        "violation": v,
        "signature": engine.signature(small, v),
        "original_ops": orig_ops,
        "minimised_ops": _n_ops(small),
        "shrink_attempts": attempts,
    }
    with open(path, "w") as f:
        json.dump(doc, f, indent=1, sort_keys=True)
    return path, doc


def replay(engine, prop, path):
    with open(path) as f:
        doc = json.load(f)
    res = exec_case_isolated(engine, doc["case"])
    want = (doc["violation"]["property"], doc["violation"]["invariant"])
    for v in res["violations"]:
        if (v["property"], v["invariant"]) == want:
            print(f"replayed: invariant={v['invariant']} detail={v.get('detail','')[:600]}")
            print(f"VIOLATION property={prop} replay={path}")
            return 1
    print(f"replay of {path}: violation {want} did NOT reproduce on this tree "
          f"(violations seen: {[(v['property'], v['invariant']) for v in res['violations']]})")
    return 0


def write_evidence(engine, prop, tier, seed, agg, wall, n_items, planned, extra, n_viol, exhaustive=False):
    os.makedirs(EVIDENCE, exist_ok=True)
    meta = engine.PROPERTIES[prop]
    cov = {
        "evaluations": agg.n,
        "planned": planned,
        "distinct_nontrivial": len(agg.nontrivial),
        "rule": meta["rule"],
        "samples": agg.samples[:6] or ["(no sample kept)"],
        "distinct_run_fingerprints": len(set(agg.fps.values())),
        "distinct_abstract_states": len(agg.states),
        "simulated_steps": agg.steps,
        "simulated_time_note": "no clock exists in the code under test; 'simulated time' is counted in steps "
        "(operations / deliveries / tool invocations / stream chunks)",
        "runs_per_hour": int(agg.n / wall * 3600) if wall > 0 else 0,
        "steps_per_hour": int(agg.steps / wall * 3600) if wall > 0 else 0,
        "faults_fired": {k[6:]: v for k, v in sorted(agg.stats.items()) if k.startswith("fault:")},
        "reach_probes": {k[6:]: v for k, v in sorted(agg.stats.items()) if k.startswith("reach:")},
        "counters": {k: v for k, v in sorted(agg.stats.items()) if not k.startswith(("fault:", "reach:"))},
        "exhaustive": bool(exhaustive),
        "real_vs_stub": meta.get("real_vs_stub", {}),
    }
    cov.update(extra or {})
    doc = {
        "property_id": prop,
        "tier": tier,
        "seed": seed,
        "level": meta["level"],
        "coverage": cov,
        "assumptions": meta.get("assumptions", []),
        "wall_s": round(wall, 2),
        "violations": n_viol,
    }
    with open(os.path.join(EVIDENCE, f"{prop}.json"), "w") as f:
        json.dump(doc, f, indent=1, sort_keys=True)


def reexec_fixed_hashseed():
    if os.environ.get("PYTHONHASHSEED") is None and not os.environ.get("VERIF_KEEP_HASHSEED"):
        env = dict(os.environ)
        env["PYTHONHASHSEED"] = "0"
        os.execve(sys.executable, [sys.executable] + sys.argv, env)


def main(engine, prop, argv):
    ap = argparse.ArgumentParser()
    ap.add_argument("--tier", default=os.environ.get("VERIF_TIER", "quick"), choices=["quick", "thorough"])
    ap.add_argument("--seed", type=int, default=int(os.environ.get("VERIF_SEED", "0")))
    ap.add_argument("--jobs", type=int, default=int(os.environ.get("VERIF_JOBS", str(os.cpu_count() or 4))))
    ap.add_argument("--runs", type=int, default=None, help="override the number of items")
    ap.add_argument("--replay", default=None)
    ap.add_argument("--fingerprints", action="store_true", help="print run fingerprints as JSON and exit (self-test)")
    ap.add_argument("--no-evidence", action="store_true")
    ap.add_argument("--wall-cap", type=float, default=None)
    ap.add_argument("--start", type=int, default=0, help="first item index (self-tests)")
    a = ap.parse_args(argv)

    t0 = time.monotonic()
    try:
        print(f"engine={engine.NAME} property={prop} tier={a.tier} VERIF_SEED={a.seed} jobs={a.jobs} "
              f"PYTHONHASHSEED={os.environ.get('PYTHONHASHSEED')}")
        sys.stdout.flush()
        engine.prepare(prop, a.tier, a.seed)
        import func_adl_xAOD
        print(f"code under test: {os.path.dirname(os.path.abspath(func_adl_xAOD.__file__))}")
        if a.replay:
            return replay(engine, prop, a.replay)
        reported = set()
        if not a.fingerprints:
            # every recorded (open) finding of this property is re-observed first, from its recorded history: as long as it
            # still reproduces on this tree its KNOWN-FINDING line is printed in every run, whether or not the seeded
            # search happens to meet it again; once it no longer reproduces nothing is printed for it
            for kf in load_known().get("findings", []):
                if kf["property"] != prop or not kf.get("replay"):
                    continue
                rp = os.path.join(VERIF, kf["replay"])
                try:
                    with open(rp) as f:
                        doc = json.load(f)
                    res = exec_case_isolated(engine, doc["case"])
                    sigs = {engine.signature(doc["case"], v) for v in res["violations"] if v["property"] == prop}
                except (OSError, ValueError, KeyError, HarnessError) as e:
                    print(f"note: recorded finding {kf['signature']} could not be re-observed from {kf['replay']}: {e}")
                    continue
                if kf["signature"] in sigs:
                    print(f"KNOWN-FINDING: property={prop} {kf['what']} [signature={kf['signature']}] replay={rp}")
                    reported.add(kf["signature"])
                else:
                    print(f"note: recorded finding {kf['signature']} does not reproduce on this tree any more ({kf['replay']})")
        planned = engine.plan(prop, a.tier, a.seed)
        n_items = planned if a.runs is None else min(a.runs, planned) if a.fingerprints else a.runs
        wall_cap = a.wall_cap if a.wall_cap is not None else engine.PROPERTIES[prop]["wall_cap"][a.tier]
        if a.start:
            n_items = max(0, min(n_items, planned - a.start))
        agg, _ = run_items(engine, prop, a.tier, a.seed, n_items, a.jobs, wall_cap,
                           keep="samples", start=a.start)
        wall = time.monotonic() - t0
        if a.fingerprints:
            print("FINGERPRINTS " + cjson({str(k): v for k, v in sorted(agg.fps.items())}))
            return 0
        rc = 0
        n_viol = 0
        known = load_known()
        if agg.violating:
            agg.violating.sort(key=lambda r: r["i"])
            # one representative per raw signature
            groups = collections.OrderedDict()
            for rec in agg.violating:
                for v in rec["violations"]:
                    sig = engine.signature(rec["case"], v)
                    groups.setdefault(sig, (rec, v))
            for sig, (rec, v) in list(groups.items())[:6]:
                orig = _n_ops(rec["case"])
                small, v2, attempts = minimise(engine, prop, rec["case"], v)
                path, doc = write_replay(engine, prop, a.seed, rec, small, v2, orig, attempts)
                msig = doc["signature"]
                if msig in reported:
                    continue
                reported.add(msig)
                kf = [k for k in known.get("findings", []) if k["property"] == prop and k["signature"] == msig]
                if kf:
                    print(f"KNOWN-FINDING: property={prop} {kf[0]['what']} [signature={msig}] replay={path}")
                    continue
                # confirm in a fresh interpreter
                cp = subprocess.run([os.path.join(VERIF, "check"), prop, "--replay", path],
                                    capture_output=True, text=True, timeout=600)
                if "VIOLATION property=" not in cp.stdout:
                    print(f"HARNESS-ERROR: minimised replay {path} did not reproduce in a fresh process:\n"
                          f"{cp.stdout[-2000:]}\n{cp.stderr[-2000:]}")
                    rc = max(rc, 2)
                    continue
                n_viol += 1
                print(f"violation: run={rec['i']} invariant={v2['invariant']} ops {orig}->{_n_ops(small)} "
                      f"signature={msig}\n  detail: {str(v2.get('detail',''))[:1500]}")
                print(f"VIOLATION property={prop} replay={path}")
                rc = max(rc, 1)
        wall = time.monotonic() - t0
        if not a.no_evidence:
            extra = engine.evidence(prop, agg) if hasattr(engine, "evidence") else {}
            exhaustive = bool(extra.pop("exhaustive", False)) and agg.n >= planned
            write_evidence(engine, prop, a.tier, a.seed, agg, wall, n_items, planned, extra, n_viol, exhaustive)
        if hasattr(engine, "post_check") and not a.fingerprints:
            problem = engine.post_check(prop, agg)
            if problem:
                print(f"HARNESS-ERROR: coverage lost: {problem}")
                if rc == 0:
                    rc = 2  # a confirmed violation (exit 1) is the more specific answer and keeps precedence
        print(f"done: items={agg.n}/{n_items} steps={agg.steps} distinct_fp={len(set(agg.fps.values()))} "
              f"states={len(agg.states)} nontrivial={len(agg.nontrivial)} violations={n_viol} wall={wall:.1f}s")
        return rc
    except HarnessError as e:
        print(f"HARNESS-ERROR: {e}")
        return 2
    except Exception:  # noqa
        print("HARNESS-ERROR: " + traceback.format_exc())
        return 2
