"""Delta debugging helpers. `test(x)` returns truthy iff the violation persists."""


def ddmin_list(items, test):
    """Minimise a list under test(list) (classic ddmin, complement-first)."""
    items = list(items)
    n = 2
    while len(items) >= 1:
        if len(items) == 1:
            if test([]):
                return []
            return items
        chunk = max(1, len(items) // n)
        subsets = [items[i:i + chunk] for i in range(0, len(items), chunk)]
        reduced = False
        # try complements first (drop one chunk)
        for k in range(len(subsets)):
            comp = [x for j, s in enumerate(subsets) if j != k for x in s]
            if test(comp):
                items = comp
                n = max(n - 1, 2)
                reduced = True
                break
        if not reduced:
            for s in subsets:
                if len(s) < len(items) and test(s):
                    items = s
                    n = 2
                    reduced = True
                    break
        if not reduced:
            if n >= len(items):
                break
            n = min(len(items), n * 2)
    return items


def greedy_replace(items, alternatives, test):
    """For each position try simpler alternatives (alternatives(item) -> iterable)."""
    items = list(items)
    for i in range(len(items)):
        for alt in alternatives(items[i]):
            cand = items[:i] + [alt] + items[i + 1:]
            if test(cand):
                items = cand
                break
    return items
