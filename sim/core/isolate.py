"""Run a function in a forked child, hard wall timeout, JSON result over a pipe.

A timeout or a crash of the child is a *harness* outcome (HarnessError), never a pass
and never a property violation.
"""
import faulthandler
import json
import os
import select
import signal
import sys
import time
import traceback


class HarnessError(Exception):
    pass


def _die_with_parent():
    try:
        import ctypes
        ctypes.CDLL(None).prctl(1, signal.SIGKILL)  # PR_SET_PDEATHSIG: never leave orphans behind
    except Exception:  # noqa
        pass


def _child_main(fn, args, wfd, timeout):
    try:
        _die_with_parent()
        # a stuck child dumps where it is when the parent sends SIGUSR1 just before killing it
        # (no watchdog thread: faulthandler.dump_traceback_later deadlocks in a forked grandchild)
        faulthandler.register(signal.SIGUSR1, all_threads=False, chain=False)
        try:
            res = {"ok": fn(*args)}
        except BaseException:  # noqa
            res = {"harness_exception": traceback.format_exc()}
        data = json.dumps(res, default=str).encode()
        with os.fdopen(wfd, "wb") as w:
            w.write(data)
    finally:
        sys.stdout.flush()
        sys.stderr.flush()
        os._exit(0)


def start_child(fn, args, timeout):
    rfd, wfd = os.pipe()
    sys.stdout.flush()
    sys.stderr.flush()
    pid = os.fork()
    if pid == 0:
        os.close(rfd)
        _child_main(fn, args, wfd, timeout)
    os.close(wfd)
    return {"pid": pid, "rfd": rfd, "buf": bytearray(), "deadline": time.monotonic() + timeout}


def _reap(h):
    try:
        os.close(h["rfd"])
    except OSError:
        pass
    try:
        _, status = os.waitpid(h["pid"], 0)
    except ChildProcessError:
        status = 0
    return status


def kill_child(h, dump=False):
    try:
        if dump:
            os.kill(h["pid"], signal.SIGUSR1)
            time.sleep(0.3)
        os.kill(h["pid"], signal.SIGKILL)
    except ProcessLookupError:
        pass
    _reap(h)


def finish_child(h):
    """Called when EOF was read on the child's pipe."""
    status = _reap(h)
    if not h["buf"]:
        raise HarnessError(f"child {h['pid']} died without a result (wait status {status})")
    res = json.loads(bytes(h["buf"]).decode())
    if "harness_exception" in res:
        raise HarnessError("exception in harness child:\n" + res["harness_exception"])
    return res["ok"]


def call_isolated(fn, args=(), timeout=60.0):
    """Synchronous: fork, run fn(*args), return its JSON-able result."""
    h = start_child(fn, args, timeout)
    while True:
        left = h["deadline"] - time.monotonic()
        if left <= 0:
            kill_child(h, dump=True)
            raise HarnessError(f"isolated call timed out after {timeout}s")
        r, _, _ = select.select([h["rfd"]], [], [], min(left, 1.0))
        if r:
            chunk = os.read(h["rfd"], 1 << 16)
            if not chunk:
                return finish_child(h)
            h["buf"] += chunk


def map_isolated(fn, arg_list, jobs, timeout, wall_cap=None, on_result=None):
    """Run fn(*args) for every args in arg_list, each in its own forked child, at most
    `jobs` at a time. Returns list of results in input order (None where not run because
    wall_cap was hit). Raises HarnessError on timeout / crash of any child."""
    results = [None] * len(arg_list)
    done = [False] * len(arg_list)
    live = {}  # rfd -> (index, handle)
    nxt = 0
    t0 = time.monotonic()
    stop_feeding = False
    try:
        while nxt < len(arg_list) or live:
            while not stop_feeding and nxt < len(arg_list) and len(live) < jobs:
                if wall_cap is not None and time.monotonic() - t0 > wall_cap:
                    stop_feeding = True
                    break
                h = start_child(fn, arg_list[nxt], timeout)
                live[h["rfd"]] = (nxt, h)
                nxt += 1
            if stop_feeding and not live:
                break
            if not live:
                continue
            r, _, _ = select.select(list(live.keys()), [], [], 0.5)
            now = time.monotonic()
            for fd in r:
                idx, h = live[fd]
                chunk = os.read(fd, 1 << 16)
                if chunk:
                    h["buf"] += chunk
                    continue
                del live[fd]
                results[idx] = finish_child(h)
                done[idx] = True
                if on_result is not None:
                    if on_result(idx, results[idx]) == "stop":
                        stop_feeding = True
            for fd, (idx, h) in list(live.items()):
                if now > h["deadline"]:
                    del live[fd]
                    kill_child(h, dump=True)
                    raise HarnessError(f"child for item {idx} timed out after {timeout}s")
    finally:
        for fd, (idx, h) in list(live.items()):
            kill_child(h)
    return results, done
