"""Small shared helpers: the one PRNG, canonical JSON, fingerprints."""
import hashlib
import json
import random


def run_rng(engine: str, seed: int, run: int, salt: str = "") -> random.Random:
    """The only source of randomness of run `run` of batch `seed` of `engine`."""
    h = hashlib.sha256(f"{engine}:{seed}:{run}:{salt}".encode()).digest()
    return random.Random(int.from_bytes(h[:8], "big"))


def cjson(obj) -> str:
    return json.dumps(obj, sort_keys=True, separators=(",", ":"), default=str)


def fingerprint(obj) -> str:
    return hashlib.sha256(cjson(obj).encode()).hexdigest()[:16]


def weighted(rng: random.Random, pairs):
    """pairs: list of (item, weight)."""
    tot = sum(w for _, w in pairs)
    x = rng.random() * tot
    acc = 0.0
    for it, w in pairs:
        acc += w
        if x < acc:
            return it
    return pairs[-1][0]
