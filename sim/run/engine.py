"""Engine `run`: the rendered runner.sh scripts in a simulated container (C16).

Real: the three runner.sh as rendered by the real executors from the working tree, real bash, real
mkdir/cat/chmod/rm. Stub: the experiment tools (sim/run/stubs) on a private PATH, the sourced
setup files, `cp` (a wrapper that can tear a copy). Every stub logs its call, bumps a per-tool
counter and consults this invocation's fault plan.
"""
import copy
import hashlib
import os
import re
import shutil
import stat
import subprocess
import tempfile

from ..core.shrink import ddmin_list
from ..core.util import cjson, fingerprint, run_rng, weighted

NAME = "run"
ISOLATE = False
CASE_TIMEOUT = 240.0
CHUNK = 6
STUBS = os.path.join(os.path.dirname(os.path.abspath(__file__)), "stubs")

PROPERTIES = {
    "C16": {
        "level": "fault_enumeration",
        "wall_cap": {"quick": 200.0, "thorough": 3000.0},
        "rule": "part 1 (systematic): for every script x flag set x container variant, a fault-free rehearsal lists the tool "
                "calls the invocation makes; then one history `build; invocation-with-one-fault` per (tool call, mode in "
                "{fail-before, fail-after-partial}). part 2 (seeded): histories of 1-6 invocations in one working directory "
                "with flags, -d/-o arguments, container replacement and 0-2 faults per invocation drawn from the run PRNG. "
                "A 40-line reference model predicts phases, inputs and destination; exit status, stub command log and "
                "destination contents are checked after every invocation. Non-trivial = at least one fault fired or a run "
                "phase follows an earlier invocation; distinct = (script, flags, fault tool, mode, position, model pre-state).",
        "real_vs_stub": {
            "real": ["runner.sh of atlas/r21, cms/r5, cms/r7 rendered by the real executors from /repo (absolute container "
                     "paths relocated under the container root by prefix substitution)", "bash, mkdir, cat, chmod, rm, real cp behind the wrapper"],
            "stub": ["cmake, make, python(EventLoop job), sudo, mkedanlzr, scram, cmsRun, root(copy macro), xrdcp",
                     "release_setup.sh, <platform>/setup.sh, /opt/cms/entrypoint.sh (sourced)", "cp wrapper (counts, can fail or tear)"],
        },
        "assumptions": [
            "the stub tools honour the minimum contract of section 5.1 of DESIGN.md (what each step needs from the previous one); "
            "real EventLoop/CMSSW/ROOT behaviour beyond that is not modelled",
            "a failing step is one that exits non-zero (or, for sourced files, returns non-zero / runs a failing command)",
            "behaviour the statement is silent about is not asserted: second build in a dirty directory, -r without a build, -c with -r",
        ],
    },
}

BACKENDS = ["atlas", "cms_r5", "cms_r7"]
BUILD_TOOLS = {"atlas": ["cmake", "make"], "cms_r5": ["mkedanlzr", "scram"], "cms_r7": ["mkedanlzr", "scram"]}
RUN_TOOLS = {"atlas": ["python"], "cms_r5": ["cmsRun", "root"], "cms_r7": ["cmsRun", "root"]}
_pkg = {}
_scratch = None


# ------------------------------------------------------------------ package rendering (real executor)

def prepare(prop, tier, seed):
    global _scratch
    _scratch = tempfile.mkdtemp(prefix="verif-run-")
    import atexit
    atexit.register(lambda p=_scratch, pid=os.getpid(): os.getpid() == pid and shutil.rmtree(p, ignore_errors=True))
    render_packages(_scratch)
    build_call_table()


_calls = {}


def _calls_worker(b, vi, fs):
    case = {"backend": b, "variant": variants(b)[vi]}
    pre = [] if parse_flags(flag_args(fs, "/data/x.root", "/out2")).get("compile", True) else \
        [{"op": "invoke", "flags": "none", "F": F_POOL[0], "O": "/results", "faults": []}]
    tgt = {"op": "invoke", "flags": fs, "F": F_POOL[0], "O": "/out2", "faults": []}
    log = run_history(case, pre + [tgt], _scratch)[0]
    return log[-1]["tools"]


def build_call_table():
    """Tool calls of a fault-free invocation per (script, container variant, flag set): used to place seeded faults."""
    from ..core import isolate
    keys = [(b, vi, fs) for b in BACKENDS for vi in range(len(variants(b))) for fs in FLAGSETS]
    res, _ = isolate.map_isolated(_calls_worker, keys, jobs=os.cpu_count() or 4, timeout=120)
    for k, r in zip(keys, res):
        _calls[k] = r


def render_packages(scratch):
    import logging
    import sys
    logging.disable(logging.CRITICAL)
    stand_in = os.path.join(os.path.dirname(os.path.dirname(os.path.abspath(__file__))), "stand_in")
    if stand_in not in sys.path:
        sys.path.insert(0, stand_in)
    from pathlib import Path
    from func_adl import EventDataset
    from func_adl_xAOD.atlas.xaod.executor import atlas_xaod_executor
    from func_adl_xAOD.cms.aod.executor import cms_aod_executor
    from func_adl_xAOD.cms.miniaod.executor import cms_miniaod_executor

    class _cap(EventDataset):
        async def execute_result_async(self, a, title):
            return a

    specs = {
        "atlas": (atlas_xaod_executor, 'lambda e: e.Jets("AntiKt4EMTopoJets")', "lambda j: j.pt()"),
        "cms_r5": (cms_aod_executor, 'lambda e: e.Muons("muons")', "lambda m: m.pt()"),
        "cms_r7": (cms_miniaod_executor, 'lambda e: e.Muons("slimmedMuons")', "lambda m: m.pt()"),
    }
    for b, (cls, src, sel) in specs.items():
        d = os.path.join(scratch, "pkg-" + b)
        os.makedirs(d, exist_ok=True)
        a = _cap().SelectMany(src).Select(sel).value()
        exe = cls()
        info = exe.write_cpp_files(exe.apply_ast_transformations(a), Path(d))
        _pkg[b] = {"dir": d, "main": info.main_script, "files": list(info.all_filenames),
                   "result_file": str(info.result_rep.filename)}


_ABS = re.compile(r"(?<![A-Za-z0-9_$}{/.\-])/(home/atlas|opt/cms|results|xaod_calibration_cache|scripts|data)(?![A-Za-z0-9_])")


def relocate(text, root):
    return _ABS.sub(lambda m: root + "/" + m.group(1), text)


# ------------------------------------------------------------------ the container

SETUP_ATLAS = '''TOOL=release_setup; . "$VERIF_STUBLIB"; sim_log; sim_fault
if [ "$FAULT_MODE" = "fail-before" ]; then return "$FAULT_RC"; fi
export AnalysisBaseExternals_PLATFORM=x86_64-stub
# a command in the middle of the set-up fails; the banner lines after it succeed (as in the real release_setup.sh)
if [ "$FAULT_MODE" = "fail-after-partial" ]; then false; fi
echo "Configured GCC from: stub"
echo "Configured AnalysisBase from: stub"
'''
SETUP_CMS = '''TOOL=entrypoint; . "$VERIF_STUBLIB"; sim_log; sim_fault
if [ "$FAULT_MODE" = "fail-before" ]; then return "$FAULT_RC"; fi
export VERIF_CMS_ENV=1
export CVSROOT=stub
if [ "$FAULT_MODE" = "fail-after-partial" ]; then false; fi
echo "CMSSW environment: stub"
'''


class Container:
    def __init__(self, base, backend, variant):
        self.backend = backend
        self.variant = variant
        self.root = os.path.realpath(tempfile.mkdtemp(prefix="c-", dir=base))
        r = self.root
        for d in ("bin", "scripts", "results", "work", "sim", "out2", "data"):
            os.makedirs(os.path.join(r, d))
        for t in os.listdir(STUBS):
            if t != "stub_lib.sh":
                shutil.copy(os.path.join(STUBS, t), os.path.join(r, "bin", t))
        pkg = _pkg[backend]
        for f in pkg["files"]:
            src = os.path.join(pkg["dir"], f)
            dst = os.path.join(r, "scripts", f)
            if f == pkg["main"]:
                with open(src) as fh:
                    txt = fh.read()
                with open(dst, "w") as fh:
                    fh.write(relocate(txt, r))
                os.chmod(dst, stat.S_IMODE(os.stat(src).st_mode))
            else:
                shutil.copy(src, dst)
        self.script = os.path.join(r, "scripts", pkg["main"])
        self.pkg_inputs = variant["pkg_inputs"]
        if variant["filelist_at"] in ("scripts", "both"):
            with open(os.path.join(r, "scripts", "filelist.txt"), "w") as f:
                f.write("".join(x + "\n" for x in self.pkg_inputs))
        self.cwd_inputs = variant.get("cwd_inputs") or []
        if backend == "atlas":
            os.makedirs(os.path.join(r, "home/atlas"))
            if variant.get("release_setup", True):
                with open(os.path.join(r, "home/atlas/release_setup.sh"), "w") as f:
                    f.write(SETUP_ATLAS)
            if variant.get("calib_cache"):
                os.makedirs(os.path.join(r, "xaod_calibration_cache"))
        else:
            os.makedirs(os.path.join(r, "opt/cms"))
            with open(os.path.join(r, "opt/cms/entrypoint.sh"), "w") as f:
                f.write(SETUP_CMS)
        self.new_workdir()
        self.n_inv = 0

    def new_workdir(self):
        self.n_work = getattr(self, "n_work", 0) + 1
        self.work = os.path.join(self.root, "work", f"w{self.n_work}")
        os.makedirs(self.work)
        if self.variant["filelist_at"] in ("cwd", "both"):
            with open(os.path.join(self.work, "filelist.txt"), "w") as f:
                f.write("".join(x + "\n" for x in (self.cwd_inputs or self.pkg_inputs)))

    def expected_default_inputs(self):
        if self.variant["filelist_at"] in ("scripts", "both"):
            return list(self.pkg_inputs)
        return list(self.cwd_inputs or self.pkg_inputs)

    def _h(self, name):
        with open(os.path.join(self.root, "scripts", name), "rb") as f:
            return hashlib.sha256(f.read()).hexdigest()[:16]

    def build_hash(self):
        if self.backend == "atlas":
            return self._h("query.cxx")
        return self._h("Analyzer.cc") + "+" + self._h("BuildFile.xml")

    def cfg_hash(self):
        return None if self.backend == "atlas" else self._h("analyzer_cfg.py")

    def resolve(self, p):
        """Arguments in a case use container paths ('/out2/x.root'); on disk they live under root."""
        return self.root + p if p.startswith("/") else p

    def invoke(self, args, faults, timeout=30):
        self.n_inv += 1
        token = f"inv{self.n_inv}"
        sim = os.path.join(self.root, "sim", token)
        os.makedirs(sim)
        with open(os.path.join(sim, "faults"), "w") as f:
            for flt in faults:
                f.write(f"{flt['tool']} {flt['nth']} {flt['mode']} {flt['rc']}\n")
        env = {
            "PATH": f"{self.root}/bin:/usr/bin:/bin",
            "LANG": "C",
            "HOME": self.root + "/home",
            "VERIF_SIM": sim,
            "VERIF_ROOT": self.root,
            "VERIF_STUBLIB": os.path.join(STUBS, "stub_lib.sh"),
            "VERIF_TOKEN": token,
            "VERIF_CMS": {"cms_r5": "r5", "cms_r7": "r7"}.get(self.backend, ""),
        }
        if self.backend == "atlas" and not self.variant.get("release_setup", True):
            # no release_setup.sh in the image: the release environment is already set up
            env["AnalysisBaseExternals_PLATFORM"] = "x86_64-stub"
        if self.backend != "atlas" and self.variant.get("cms_env_preset"):
            env["CVSROOT"] = "preset"
            env["VERIF_CMS_ENV"] = "1"
        argv = [self.script] + [self.resolve(a) if a.startswith("/out") or a.startswith("/results") else a for a in args]
        try:
            cp = subprocess.run(argv, cwd=self.work, env=env, stdin=subprocess.DEVNULL, stdout=subprocess.PIPE,
                                stderr=subprocess.STDOUT, timeout=timeout, preexec_fn=lambda: os.umask(0o022))
            rc = cp.returncode
            out = cp.stdout.decode(errors="replace")
        except subprocess.TimeoutExpired as e:
            rc = "timeout"
            out = (e.stdout or b"").decode(errors="replace")

        def rd(n):
            p = os.path.join(sim, n)
            if not os.path.exists(p):
                return []
            with open(p) as f:
                return [ln.rstrip("\n") for ln in f]

        cmdlog = [ln.split("\t") for ln in rd("cmdlog")]
        return {"rc": rc, "token": token, "cmdlog": cmdlog, "fired": rd("fired"), "precond": rd("precond"),
                "out_tail": out[-600:].replace(self.root, "<ROOT>")}


def read_output(path):
    """Parse a stub 'ROOT file'. None if absent."""
    if os.path.isdir(path) or not os.path.exists(path):
        return None
    with open(path, errors="replace") as f:
        lines = [ln.rstrip("\n") for ln in f]
    d = {"token": None, "build": None, "cfg": None, "inputs": [], "complete": bool(lines) and lines[-1] == "end",
         "converted": "converted" in lines}
    for ln in lines:
        if ln.startswith("token="):
            d["token"] = ln[6:]
        elif ln.startswith("build="):
            d["build"] = ln[6:]
        elif ln.startswith("cfg="):
            d["cfg"] = ln[4:]
        elif ln.startswith("input="):
            d["inputs"].append(ln[6:])
    return d


# ------------------------------------------------------------------ flags

FLAGSETS = {
    "none": [], "c": ["-c"], "r": ["-r"], "r_d": ["-r", "-d", "{F}"], "r_o": ["-r", "-o", "{O}"],
    "r_d_o": ["-r", "-d", "{F}", "-o", "{O}"], "d": ["-d", "{F}"], "o": ["-o", "{O}"], "d_o": ["-d", "{F}", "-o", "{O}"],
    "c_r": ["-c", "-r"], "unknown": ["-x"], "unknown_late": ["-r", "-z"], "missing_arg": ["-r", "-d"], "stray": ["-r", "extra"],
    "stray2": ["extra1", "extra2"],
    # repeated, re-ordered and clustered options (POSIX getopts semantics: the last -d / -o wins, -rd F == -r -d F)
    "r_r": ["-r", "-r"], "r_d_d": ["-r", "-d", "/data/first.root", "-d", "{F}"], "o_d_r": ["-o", "{O}", "-d", "{F}", "-r"],
    "c_c": ["-c", "-c"], "cluster_rd": ["-rd", "{F}"], "cluster_ro": ["-ro", "{O}"], "r_o_o": ["-r", "-o", "/out2/first.root", "-o", "{O}"],
    "dashdash": ["-r", "--", "extra"], "dashdash_ok": ["-r", "--"], "d_attached": ["-r", "-d{F}"],
}
F_POOL = ["/data/other.root", "/data/sub/dir/file_2.root", "root://host//path/f.root", "/data/with space.root"]
# destinations: an existing directory, file names - also ones that do not end in .root (an output named after its input
# file, ATLAS / ServiceX style, or a name without any extension): -o names the place, whatever it is called
O_POOL = ["/out2", "/out2/named.root", "/results", "/out2/second.root", "/out2/AOD.0001._000042.pool.root.1", "/out2/ntuple_17"]


def flag_args(fs, F, O):
    return [a.replace("{F}", F).replace("{O}", O) for a in FLAGSETS[fs]]


def parse_flags(args):
    """Reference reading of the documented command line: POSIX getopts with the option string "d:o:cr"."""
    compile_, run, d, o = True, True, None, None
    i = 0
    while i < len(args):
        a = args[i]
        if a == "--":
            i += 1
            break
        if not a.startswith("-") or a == "-":
            break
        j = 1
        while j < len(a):
            c = a[j]
            if c == "c":
                run = False
            elif c == "r":
                compile_ = False
            elif c in ("d", "o"):
                if j + 1 < len(a):
                    val = a[j + 1:]
                else:
                    i += 1
                    if i >= len(args):
                        return {"error": 10}
                    val = args[i]
                if c == "d":
                    d = val
                else:
                    o = val
                break
            else:
                return {"error": 10}
            j += 1
        i += 1
    if i < len(args):
        return {"error": 1}
    return {"error": None, "compile": compile_, "run": run, "d": d, "o": o}


# ------------------------------------------------------------------ variants and generation

def variants(backend, rng=None):
    base = {"pkg_inputs": ["/data/a.root", "/data/b.root"], "filelist_at": "scripts"}
    out = [dict(base)]
    out.append(dict(base, pkg_inputs=["/data/only.root"], filelist_at="both", cwd_inputs=["/data/cwd_only.root"]))
    out.append(dict(base, filelist_at="cwd", cwd_inputs=["/data/c1.root", "/data/c2.root", "/data/c3.root"]))
    if backend == "atlas":
        out.append(dict(base, calib_cache=True))
        out.append(dict(base, release_setup=False))
    else:
        out.append(dict(base, cms_env_preset=True))
    return out


SWEEP_FLAGS = ["none", "c", "r", "r_d", "r_o", "r_d_o", "d", "o", "d_o", "r_d_d", "o_d_r", "cluster_rd", "r_o_o"]


def _sweep_space():
    items = []
    for b in BACKENDS:
        for vi in range(len(variants(b))):
            for fs in SWEEP_FLAGS:
                if vi > 0 and fs not in ("none", "r", "r_d_o"):
                    continue
                for oi in (0, 1):
                    if "o" not in fs.split("_") and oi == 1:
                        continue
                    items.append((b, vi, fs, oi))
    return items


N_SEEDED = {"quick": 900, "thorough": 30000}


def plan(prop, tier, seed):
    return len(_sweep_space()) + N_SEEDED[tier]


def make_case(prop, tier, seed, i):
    sweep = _sweep_space()
    if i < len(sweep):
        b, vi, fs, oi = sweep[i]
        return {"engine": NAME, "prop": prop, "seed": seed, "run": i, "kind": "sweep", "backend": b,
                "variant": variants(b)[vi], "flags": fs, "F": F_POOL[0], "O": O_POOL[oi], "only": None}
    rng = run_rng(NAME, seed, i)
    b = rng.choice(BACKENDS)
    vs = variants(b)
    v = vs[rng.randrange(len(vs))]
    n = weighted(rng, [(1, 1), (2, 3), (3, 4), (4, 3), (6, 1)])
    p_fault = rng.choice([0.0, 0.2, 0.4, 0.6])
    modes = rng.sample(["fail-before", "fail-after-partial"], rng.choice([1, 2]))
    shape = weighted(rng, [("build_then_runs", 6), ("free", 3), ("c_then_runs", 3)])
    ops = []
    for j in range(n):
        if j > 0 and rng.random() < 0.08:
            ops.append({"op": "replace_container"})
        if shape == "build_then_runs":
            fs = "none" if j == 0 else rng.choice(["r", "r", "r_d", "r_o", "r_d_o", "r_d_o", "r_r", "r_d_d", "o_d_r", "cluster_rd",
                                                   "cluster_ro", "r_o_o", "d_attached", "dashdash_ok"])
        elif shape == "c_then_runs":
            fs = "c" if j == 0 else rng.choice(["r", "r_d", "r_o", "r_d_o"])
        else:
            fs = rng.choice(list(FLAGSETS))
        F = weighted(rng, [(F_POOL[0], 4), (F_POOL[1], 3), (F_POOL[2], 2), (F_POOL[3], 1)])
        O = rng.choice(O_POOL)
        op = {"op": "invoke", "flags": fs, "F": F, "O": O, "faults": []}
        if rng.random() < p_fault:
            for _ in range(weighted(rng, [(1, 5), (2, 1)])):
                op["faults"].append({"pick": rng.random(), "mode": rng.choice(modes), "rc": rng.choice([1, 2, 127, 139])})
        ops.append(op)
    return {"engine": NAME, "prop": prop, "seed": seed, "run": i, "kind": "seeded", "backend": b, "variant": v, "ops": ops}


# ------------------------------------------------------------------ model + oracle

class Model:
    def __init__(self):
        self.built_ok = False
        self.dirty = False
        self.build_hash = None


def dest_path(cont, o):
    d = cont.resolve(o) if o is not None else cont.root + "/results"
    if os.path.isdir(d):
        return os.path.join(d, "ANALYSIS.root")
    return d


def check_invocation(cont, model, args, res, pre_dest, dpath, fault_fired, viols, stats, idx):
    b = cont.backend
    pf = parse_flags(args)
    tools = [c[0] for c in res["cmdlog"]]
    rc = res["rc"]

    def V(inv, detail):
        viols.append({"property": "C16", "invariant": inv, "op_index": idx,
                      "detail": f"{b} args={args} rc={rc}: {detail} | tools={tools} | out: {res['out_tail'][-200:]!r}"})

    if rc == "timeout":
        V("fail-propagates", "the script did not terminate within the timeout")
        return
    if pf["error"] is not None:
        if rc != pf["error"]:
            V("exit-code", f"expected exit {pf['error']} for this command line")
        if tools:
            V("exit-code", "tools were invoked although the command line is invalid")
        return
    build_tools = [t for t in tools if t in BUILD_TOOLS[b]]
    run_tools = [t for t in tools if t in RUN_TOOLS[b]]
    if not pf["run"] and pf["compile"] and run_tools:
        V("phase", f"-c invoked run-phase tools {run_tools}")
    if not pf["compile"] and pf["run"] and build_tools:
        V("phase", f"-r invoked build tools {build_tools}")
    if pf["compile"] and pf["run"] and rc == 0:
        if not build_tools or not run_tools:
            V("phase", "no flags must build and run")
        elif max(tools.index(t) for t in build_tools) > min(tools.index(t) for t in run_tools):
            V("phase", "run-phase tool invoked before the build finished")
    if not pf["run"] and pf["compile"] and rc == 0 and not build_tools:
        V("phase", "-c exited 0 without invoking the build tools")
    post = read_output(dpath)
    fresh_here = post is not None and post["token"] == res["token"]
    if fault_fired and rc == 0:
        V("fail-propagates", f"a step failed ({res['fired']}) but the script exited 0")
    if rc != 0 and fresh_here:
        V("no-fresh-output-on-failure",
          f"exit {rc} but the destination {dpath.replace(cont.root, '')} holds output of this invocation "
          f"({'complete' if post['complete'] else 'truncated'})")
    if rc == 0 and pf["run"]:
        exp_inputs = [pf["d"]] if pf["d"] is not None else cont.expected_default_inputs()
        if post is None:
            V("success-delivers-this-run", f"exit 0 but nothing at the destination {dpath.replace(cont.root, '')}")
        else:
            if post["token"] != res["token"]:
                V("success-delivers-this-run", f"destination holds output of {post['token']}, not of this invocation ({res['token']})")
            if not post["complete"]:
                V("success-delivers-this-run", "destination file is truncated")
            if post["inputs"] != exp_inputs:
                V("success-delivers-this-run", f"job read inputs {post['inputs']}, expected {exp_inputs}")
            if model.build_hash is not None and pf["compile"] is False and post["build"] != model.build_hash:
                V("success-delivers-this-run", "output was produced by a different build than the previous build of this directory")
            if pf["compile"] and post["build"] != cont.build_hash():
                V("success-delivers-this-run", "output was not produced from the package's current source")
            if b != "atlas" and post["cfg"] != cont.cfg_hash():
                V("success-delivers-this-run", "the job did not run with the package's configuration file")
            if b != "atlas" and not post["converted"]:
                V("success-delivers-this-run", "CMS output was not passed through the tree-copy macro")
    # progress once faults stop: a valid fault-free invocation whose precondition holds must succeed
    if not fault_fired and rc != 0:
        ok_pre = None  # None = the statement is silent (e.g. -c -r, rebuild in a dirty directory, -r without a build)
        if pf["compile"]:
            ok_pre = not model.dirty
        elif pf["run"]:
            ok_pre = model.built_ok
        if ok_pre:
            V("valid-invocation-succeeds", f"fault-free valid invocation failed (stub preconditions: {res['precond']})")


RUN_MARKERS = {"atlas": ["env_setup", "python"], "cms_r5": ["cmsRun", "root"], "cms_r7": ["cmsRun", "root"]}


def _build_phase_fault(cont, res):
    """True if a fired fault hit a call made before the first run-phase marker."""
    log = [c[0] for c in res["cmdlog"]]
    first_run = min([log.index(t) for t in RUN_MARKERS[cont.backend] if t in log] or [len(log)])
    for f in res["fired"]:
        t, n, _ = f.split()
        seen = 0
        for pos, tool in enumerate(log):
            if tool == t:
                seen += 1
                if seen == int(n):
                    if pos < first_run:
                        return True
                    break
    return False


def update_model(cont, model, args, res, fault_fired):
    pf = parse_flags(args)
    if pf["error"] is not None or not pf["compile"]:
        return
    tools = [c[0] for c in res["cmdlog"]]
    if model.dirty:
        # a second build in a dirty directory is unspecified: assume nothing about the result
        model.built_ok = False
        return
    model.dirty = True
    reached_run = any(t in tools for t in RUN_MARKERS[cont.backend])
    built = all(t in tools for t in BUILD_TOOLS[cont.backend])
    model.built_ok = bool(built and not _build_phase_fault(cont, res) and (res["rc"] == 0 or reached_run))
    model.build_hash = cont.build_hash() if model.built_ok else None


def resolve_faults(op_faults, tool_list):
    """Place each abstract fault on a concrete (tool, n-th call) of the fault-free invocation."""
    calls = []
    counts = {}
    for t in tool_list:
        counts[t] = counts.get(t, 0) + 1
        calls.append((t, counts[t]))
    out = []
    for f in op_faults:
        if "tool" in f:
            out.append(f)
        elif calls:
            t, n = calls[int(f["pick"] * len(calls)) % len(calls)]
            out.append({"tool": t, "nth": n, "mode": f["mode"], "rc": f["rc"]})
    return out


def _state_fp(cont, model, fs, faults, idx):
    return fingerprint([cont.backend, fs, [(f["tool"], f["mode"]) for f in faults], idx, model.built_ok, model.dirty])


def run_history(case, ops, base):
    """Executes ops in a fresh container; returns (log, viols, stats, states, nontrivial)."""
    b = case["backend"]
    cont = Container(base, b, case["variant"])
    vi = variants(b).index(case["variant"]) if case["variant"] in variants(b) else 0
    model = Model()
    log, viols, stats, states, nontrivial = [], [], {}, [], []

    def bump(k, n=1):
        stats[k] = stats.get(k, 0) + n

    ran_before = False
    failed_before = False
    try:
        for idx, op in enumerate(ops):
            if op["op"] == "replace_container":
                cont.new_workdir()
                model = Model()
                log.append({"i": idx, "op": "replace_container"})
                bump("reach:container_replaced")
                continue
            args = flag_args(op["flags"], op["F"], op["O"])
            pf = parse_flags(args)
            dpath = dest_path(cont, pf.get("o")) if pf["error"] is None else cont.root + "/results/ANALYSIS.root"
            # fault positions refer to the tool calls this invocation makes when nothing fails (measured in prepare())
            faults = resolve_faults(op.get("faults", []), _calls.get((b, vi, op["flags"]), []))
            pre = read_output(dpath)
            res = cont.invoke(args, faults)
            fired = bool(res["fired"])
            for f in res["fired"]:
                t, n, mode = f.split()
                bump(f"fault:{t}_{mode}")
            if fired and ran_before:
                bump("reach:fault_in_run_after_earlier_invocation")
            if not fired and failed_before and pf["error"] is None and pf["run"] and not pf["compile"]:
                bump("reach:run_after_failed_invocation")
            check_invocation(cont, model, args, res, pre, dpath, fired, viols, stats, idx)
            st = _state_fp(cont, model, op["flags"], faults if fired else [], idx)
            states.append(st)
            if fired or (ran_before and pf["error"] is None and pf["run"]):
                nontrivial.append(st)
            update_model(cont, model, args, res, fired)
            log.append({"i": idx, "args": args, "rc": res["rc"], "faults": [[f["tool"], f["nth"], f["mode"]] for f in faults],
                        "fired": res["fired"], "tools": [c[0] for c in res["cmdlog"]],
                        "dest": None if read_output(dpath) is None else read_output(dpath)["token"]})
            bump("invocations")
            bump("tool_calls", len(res["cmdlog"]))
            if res["rc"] == 0:
                bump("exit0")
            ran_before = True
            failed_before = failed_before or res["rc"] != 0
    finally:
        shutil.rmtree(cont.root, ignore_errors=True)
    return log, viols, stats, states, nontrivial


def execute(case):
    base = _scratch
    all_log, all_viols, stats, states, nontrivial = [], [], {}, [], []

    def merge(r):
        log, viols, st, ss, nt = r
        all_log.append(log)
        all_viols.extend(viols)
        for k, v in st.items():
            stats[k] = stats.get(k, 0) + v
        states.extend(ss)
        nontrivial.extend(nt)

    if case["kind"] == "seeded":
        merge(run_history(case, case["ops"], base))
    else:
        fs = case["flags"]
        pre = [] if fs in ("none", "c", "d", "o", "d_o") else [{"op": "invoke", "flags": "none", "F": case["F"], "O": "/results", "faults": []}]
        target = {"op": "invoke", "flags": fs, "F": case["F"], "O": case["O"], "faults": []}
        # fault-free pass gives the list of tool calls of the target invocation
        r0 = run_history(case, pre + [target], base)
        merge(r0)
        calls = []
        counts = {}
        # rehearse once more to list calls (log of the target op)
        tl = r0[0][-1]["tools"]
        for t in tl:
            counts[t] = counts.get(t, 0) + 1
            calls.append((t, counts[t]))
        combos = [(t, n, m) for (t, n) in calls for m in ("fail-before", "fail-after-partial")]
        if case.get("only") is not None:
            combos = [c for c in combos if list(c) in [list(x) for x in case["only"]]]
        follow = {"op": "invoke", "flags": "r", "F": case["F"], "O": "/results", "faults": []}
        for (t, n, m) in combos:
            tf = dict(target, faults=[{"tool": t, "nth": n, "mode": m, "rc": 1 if m == "fail-before" else 2}])
            # the faulted invocation, then - once faults stop - a plain -r, which must work if the build is intact
            r = run_history(case, pre + [tf, follow], base)
            for v in r[1]:
                v["combo"] = [t, n, m]
            merge(r)
        stats["sweep_fault_points"] = stats.get("sweep_fault_points", 0) + len(combos)
    return {"log": all_log, "violations": all_viols, "stats": stats, "states": states, "nontrivial": nontrivial,
            "steps": stats.get("tool_calls", 0)}


# ------------------------------------------------------------------ shrink / signature / describe

def shrink(case, fails):
    if case["kind"] == "sweep":
        v = fails(case)
        if not v:
            return case
        c = copy.deepcopy(case)
        c["only"] = [v["combo"]] if v.get("combo") else []
        return c if fails(c) else case

    def with_ops(ops):
        c = copy.deepcopy(case)
        c["ops"] = ops
        return c

    ops = ddmin_list(case["ops"], lambda o: bool(o) and fails(with_ops(o)))
    # drop faults one at a time, simplify flags
    changed = True
    while changed:
        changed = False
        for i, op in enumerate(ops):
            if op["op"] != "invoke":
                continue
            for j in range(len(op.get("faults", []))):
                o2 = copy.deepcopy(op)
                del o2["faults"][j]
                cand = ops[:i] + [o2] + ops[i + 1:]
                if fails(with_ops(cand)):
                    ops = cand
                    changed = True
                    break
            if changed:
                break
    if case["variant"] != variants(case["backend"])[0]:
        c = with_ops(ops)
        c["variant"] = variants(case["backend"])[0]
        if fails(c):
            return c
    return with_ops(ops)


def signature(case, v):
    # identity of a finding: script, invariant, and (for fault-related ones) the failing tool and mode
    m = re.search(r"'(\w+) \d+ (fail-[a-z-]+)'", v.get("detail", ""))
    det = v.get("detail", "")
    tool_mode = ""
    fm = re.search(r"a step failed \(\['(\w+) \d+ ([a-z-]+)'", det)
    if fm:
        tool_mode = f":{fm.group(1)}:{fm.group(2)}"
    elif case["kind"] == "sweep" and case.get("only"):
        t, n, mode = case["only"][0]
        tool_mode = f":{t}:{mode}"
    elif case["kind"] == "seeded":
        fl = [f for op in case["ops"] if op["op"] == "invoke" for f in op.get("faults", [])]
        if len(fl) == 1 and "tool" in fl[0]:
            tool_mode = f":{fl[0]['tool']}:{fl[0]['mode']}"
    cls = ""
    if v["invariant"] == "no-fresh-output-on-failure":
        cls = ":truncated" if "truncated" in det else ":complete"
    return f"C16:{case['backend']}:{v['invariant']}{cls}{tool_mode}"


def describe(case):
    if case["kind"] == "sweep":
        return {"kind": "sweep", "backend": case["backend"], "flags": FLAGSETS[case["flags"]], "variant": case["variant"],
                "what": "build; then this invocation once per (tool call, failure mode)"}
    return {"kind": "seeded", "backend": case["backend"], "variant": case["variant"],
            "ops": [(flag_args(o["flags"], o["F"], o["O"]), o["faults"]) if o["op"] == "invoke" else "replace_container"
                    for o in case["ops"]]}


def evidence(prop, agg):
    return {"exhaustive": False,
            "explanation": "the single-fault sweep (script x flag set x container variant x tool call x failure mode) is enumerated "
                           "completely; the seeded histories on top of it are sampled",
            "sweep_cases": len(_sweep_space()), "sweep_fault_points": agg.stats.get("sweep_fault_points", 0)}
