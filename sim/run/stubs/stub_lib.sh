# Sourced by every stub tool of the container simulator.
# Needs: TOOL (name of this tool), VERIF_SIM (per-invocation simulator directory).
sim_log() {
  printf '%s\t%s\t%s\n' "$TOOL" "${PWD#$VERIF_ROOT}" "$*" >> "$VERIF_SIM/cmdlog"
}
# consult the fault plan: sets FAULT_MODE / FAULT_RC for this (tool, n-th call in this invocation)
sim_fault() {
  local n t k mode rc
  n=0
  [ -f "$VERIF_SIM/count.$TOOL" ] && read -r n < "$VERIF_SIM/count.$TOOL"
  n=$((n + 1))
  echo "$n" > "$VERIF_SIM/count.$TOOL"
  FAULT_MODE=""
  FAULT_RC=0
  if [ -f "$VERIF_SIM/faults" ]; then
    while read -r t k mode rc; do
      if [ "$t" = "$TOOL" ] && [ "$k" = "$n" ]; then
        FAULT_MODE=$mode
        FAULT_RC=$rc
        echo "$TOOL $n $mode" >> "$VERIF_SIM/fired"
      fi
    done < "$VERIF_SIM/faults"
  fi
}
sim_die() {
  echo "stub $TOOL: $*" >&2
  echo "$TOOL precondition: $*" >> "$VERIF_SIM/precond"
  exit 97
}
