#!/venv/bin/python
"""Regenerates MANIFEST.json from one place (kept valid at all times)."""
import json

NA = {
    "C01": "pure function of (query, event): deciding it needs a reference LINQ interpreter and differential execution, i.e. input generation; no schedule, fault, crash point or history for a simulator to control",
    "C03": "the booked schema and descriptor are a pure function of the query's final expression; nothing nondeterministic or stateful participates (the descriptor/file agreement with the entry script is exercised inside C17's chained mode)",
    "C04": "faults here are undefined points of the query on an event, a pure function of (query, event); equivalence needs a reference semantics, not fault injection (independence of a fault from other events is covered by C05)",
    "C08": "equality of two translations of equivalent inputs in one fresh state: a metamorphic relation over inputs only, no history or fault in it",
    "C09": "accept/reject is a pure function of the query",
    "C10": "emitted access syntax and types are a pure function of (declarations, query); the C++ type checker is its judge",
    "C11": "textual substitution is a pure function of (specification, call site)",
    "C12": "a table lookup plus a libm call; pure function of (function, argument)",
    "C13": "a finite operator x operand-kind table; pure function of (operator, operands)",
    "C14": "rendering of injected blocks is a pure function of the block multiset",
    "C15": "the emitted order is a pure function of the block list (arrival order is part of the input; the only set in the algorithm is used for membership); cross-query leakage of blocks is C07's",
    "C18": "literal rendering is a pure function of the literal",
}

PENDING = {}

CHECKS = {
    "C07": dict(engine="svc", level="exploration", design="3",
                text="Seeded search over histories of a long-lived translator process (translations that succeed, fail naturally, "
                     "fail on an injected I/O error, or are aborted at an arbitrary line), every fault-free translation compared "
                     "with the same query in a fresh process after exact name normalisation. Sampling, not proof; pools are finite.",
                note="Trusted: the name normaliser (wrap of unique_name + func_adl arg_N), fork-of-pristine-process as fresh "
                     "interpreter (cross-checked by selftest), finite query/metadata pools.",
                technique="deterministic simulation: seeded operation/fault histories on one process, fresh-process reference model, ddmin replay"),
    "C02": dict(engine="svc", level="fault_enumeration", design="3.3",
                text="Package-completeness clause only: every file-system call of the write phase (open/write/close/chmod) is failed "
                     "in turn for every pool query x backend x output-directory state; whenever translation returns the package "
                     "must be complete and byte-identical to the fault-free rendering. The C++ well-formedness clause is NOT decided.",
                note="Scoped claim: 'complete package whenever translation returns', incl. under injected I/O errors. Not claimed: "
                     "declared-once / in-scope / type-consistent C++ (pure function of the query).",
                technique="deterministic simulation: fault enumeration over the I/O calls of the write phase at a monkeypatched open/chmod seam"),
    "C16": dict(engine="run", level="fault_enumeration", design="5",
                text="The three rendered runner.sh run unmodified (paths relocated) under stub tools with a per-invocation fault "
                     "plan. The single-fault space script x flag set x container variant x tool call x {fail-before, "
                     "fail-after-partial} is enumerated completely; seeded histories of 1-6 invocations with 0-2 faults each are "
                     "sampled on top. A reference model of the documented behaviour judges exit status, command log and destination.",
                note="Trusted: the stub tools' minimum contract (DESIGN.md 5.1), prefix relocation of container paths, the 40-line "
                     "reference model. Unspecified behaviour (rebuild in a dirty directory, -r without build, -c -r) is not asserted.",
                technique="deterministic simulation: script under stub tools on PATH, fault plan per tool call, reference model over invocation histories"),
    "C17": dict(engine="loc", level="fault_enumeration", design="6",
                text="LocalDataset (all three backends) runs end to end against a vendored stand-in python_on_whales whose docker.run "
                     "plays a container plan (stream chunks, result file at a chosen instant, DockerException before any chunk or at "
                     "exit) or really runs the generated runner.sh under stub tools. Container outcome x file-list class x image "
                     "source x output directory x process start state is enumerated; seeded multi-execution histories with I/O "
                     "faults and concurrent starts are sampled. A reference function predicts the docker call and outcome class.",
                note="Trusted: the stand-in's rendering of python_on_whales' documented docker.run(stream=True) contract; "
                     "tempfile.tempdir=None in a forked child as model of a fresh interpreter. Which of two docker metadata wins "
                     "is not stated by the property and not asserted.",
                technique="deterministic simulation: in-process fake docker playing seeded container plans + I/O fault seams, reference outcome model"),
    "C05": dict(engine="job", level="exploration", design="4",
                text="Seeded queries are translated by the real executor, the emitted C++ is compiled with g++ against stand-in "
                     "frameworks and run by a driver that owns event order, duplicates, job boundaries and restarts. Each of 24 "
                     "events alone in a fresh job instance fixes its outcome; seeded schedules (permutations, repeats, splits, "
                     "restart after faulting events, one OS process per segment, 200-delivery jobs) must reproduce it at every "
                     "delivery, and rows must be conserved. Reference-free; sampling, not proof.",
                note="Trusted: the stand-in frameworks (sim/job/standin), the typed query generator's vocabulary. Queries rejected by "
                     "the translator or by g++ are counted and skipped; if a backend's jobs stop compiling against the stand-in the "
                     "check reports HARNESS-ERROR (coverage lost), not a pass.",
                technique="deterministic simulation: compiled generated job under a simulated framework; seeded event schedules and job restarts vs per-event canonical outcome"),
    "C06": dict(engine="job", level="fault_enumeration", design="4.3",
                text="Run-time clauses only: the stand-in event store logs every retrieval (API, container type, bank) of the compiled "
                     "generated job and the log is checked against the query's e.<Collection>(bank) occurrences (idiom, type, bank, "
                     "miniAOD tokens created once by consumes<T>(InputTag(bank))); then every retrieval of sampled events is failed in "
                     "turn: the delivery must fail without a signal, rows already written must be a prefix of the event's rows, and a fresh instance must reproduce "
                     "the event. A third of the jobs are translated after a seeded history (other backend, same executor, replaced "
                     "collection). Header/link-library requests and metadata validation are NOT decided.",
                note="Scoped claim (see text). Trusted: stand-in event store semantics for a failed retrieval (ATLAS: FAILURE status, "
                     "pointer untouched; CMS: invalid handle whose dereference throws).",
                technique="deterministic simulation: fault enumeration over the event store's retrievals of the compiled generated job + monitored retrieval log"),
}

ENGINES = [
    {"name": "svc", "path": "sim/svc", "serves_properties": ["C07", "C02"],
     "kind_free_text": "translator as a long-lived service: seeded histories, injected I/O errors and aborts, fresh-process reference"},
    {"name": "run", "path": "sim/run", "serves_properties": ["C16"],
     "kind_free_text": "rendered runner.sh in a simulated container: stub experiment tools on PATH, per-call fault plan, invocation histories"},
    {"name": "loc", "path": "sim/loc", "serves_properties": ["C17"],
     "kind_free_text": "LocalDataset against a simulated docker (vendored stand-in python_on_whales), optionally chained into the run engine"},
    {"name": "job", "path": "sim/job", "serves_properties": ["C05", "C06"],
     "kind_free_text": "generated C++ compiled against stand-in ATLAS/CMS frameworks; driver plays seeded event schedules, restarts and failing retrievals"},
]


def main():
    checks = []
    for pid, c in CHECKS.items():
        checks.append({
            "property_id": pid,
            "quick_cmd": f"./check {pid} --tier quick",
            "thorough_cmd": f"./check {pid} --tier thorough",
            "evidence_file": f"/verif/evidence/{pid}.json",
            "replay_cmd_template": f"./check {pid} --replay {{path}}",
            "engine": c["engine"],
            "level_claimed": {"category": c["level"], "text": c["text"], "design_ref": f"DESIGN.md section {c['design']}"},
            "level_note": c["note"],
            "technique": c["technique"],
        })
    na = [{"property_id": k, "reason": v} for k, v in sorted({**NA, **PENDING}.items())]
    doc = {
        "version": 1,
        "setup_cmd": "./setup.sh",
        "hooks": {
            "guard": "FUNC_ADL_XAOD_VERIF",
            "enable": "no hooks exist in /repo: every seam is reached from outside (PATH, sys.path, monkeypatching in the harness process, sys.settrace); the guard name is reserved only",
            "baseline_off_cmd": "cd /repo && /venv/bin/python -m pytest -ra -q -p no:cacheprovider --timeout=900 --continue-on-collection-errors",
            "source_commits": [],
            "add_only": True,
        },
        "engines": ENGINES,
        "checks": checks,
        "not_applicable": na,
        "notes": "Technique family: deterministic simulation with fault injection. See DESIGN.md. Exit codes of ./check: 0 held, 1 VIOLATION, 2 HARNESS-ERROR.",
    }
    with open("/verif/MANIFEST.json", "w") as f:
        json.dump(doc, f, indent=1)


if __name__ == "__main__":
    main()
