#!/venv/bin/python
"""tools/try_query.py <PROP C05|C06> <backend> '<json steps>' ['<json md list>']: run the job engine on one hand-written query."""
import json
import sys
sys.path.insert(0, "/verif")
from sim.job import engine  # noqa
from sim.core.util import run_rng  # noqa

prop, backend, steps = sys.argv[1], sys.argv[2], json.loads(sys.argv[3])
md = json.loads(sys.argv[4]) if len(sys.argv) > 4 else []
engine.prepare(prop, "quick", 0)
rng = run_rng("hand", 0, 0)
q = {"backend": backend, "steps": steps, "md": [[0, m] for m in md], "wire": "ast", "occurrences": [], "shape": "hand", "cols": None}
case = {"engine": "job", "prop": prop, "seed": 0, "run": 0, "backend": backend, "query": q, "event_seed": 12345, "pre": []}
if prop == "C05":
    case["schedules"] = engine.gen_schedules(rng, 16)
else:
    case["fail_events"] = list(range(8))
    case["only_fail"] = None
r = engine.execute(case)
print(json.dumps({"log": r["log"][:3], "stats": r["stats"], "violations": [v["detail"][:400] for v in r["violations"]]}, indent=1))
