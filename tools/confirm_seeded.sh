#!/bin/bash
# tools/confirm_seeded.sh <tag e.g. C07-a>: confirm a sub-agent's seeded change in its scratch worktree
# (demo fails with the change, passes without, test suite passes with the change) and file it under /verif/seeded/.
# Uses git apply / git checkout only (git stash is shared by all worktrees of a repository).
tag=$1; u=${tag/-/_}; wt=/tmp/wt/$tag
cd $wt || exit 2
[ -f CHANGE_$u.diff ] && [ -f DEMO_$u.py ] || { echo "missing files"; exit 2; }
run_demo() { timeout 900 /venv/bin/python DEMO_$u.py > /tmp/demo_$u.$1.txt 2>&1; echo $?; }
git checkout -q -- . && git apply CHANGE_$u.diff || { echo "$tag: patch does not apply to a clean tree"; exit 2; }
with=$(run_demo with)
tests=$(timeout 900 /venv/bin/python -m pytest -q -p no:cacheprovider --timeout=900 --ignore=DEMO_$u.py 2>&1 | tail -1)
git checkout -q -- .
without=$(run_demo without)
git apply CHANGE_$u.diff
echo "$tag: demo with change rc=$with ; without rc=$without ; tests: $tests"
if [ "$with" != "0" ] && [ "$without" = "0" ] && echo "$tests" | grep -q "316 passed"; then
  d=/verif/seeded/$tag; mkdir -p $d
  cp CHANGE_$u.diff $d/patch.diff; cp DEMO_$u.py $d/demo.py
  echo "CONFIRMED -> $d"
else
  echo "NOT CONFIRMED"
fi
