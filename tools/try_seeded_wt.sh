#!/bin/bash
# tools/try_seeded_wt.sh <abs patch.diff> <PROP> [extra check args]
# Like try_seeded.sh, but applies the change in a private scratch worktree of /repo's HEAD (VERIF_REPO) so that
# /repo itself is never touched and several of these can run side by side. The worktree is removed afterwards.
set -u
patch=$1; prop=$2; shift 2
wt=$(mktemp -d /tmp/wt-try-XXXXXX)
git -C /repo worktree add -q --detach "$wt" HEAD || exit 3
git -C "$wt" apply "$patch" || { echo "patch does not apply"; git -C /repo worktree remove --force "$wt"; exit 3; }
out=$(mktemp /tmp/try-XXXXXX.out)
cd /verif && VERIF_REPO="$wt" ./check "$prop" --tier quick --no-evidence "$@" > "$out" 2>&1
rc=$?
git -C /repo worktree remove --force "$wt"
grep -E "^violation|^VIOLATION|^KNOWN|^HARNESS|^done|^code under" "$out" | cut -c1-300
rm -f "$out"
echo "rc=$rc"
