#!/venv/bin/python
"""Automatic mutation sweep: how sensitive are the checks to *mechanical* changes of the anchored code?

tools/sensitivity.py holds hand-written mutants; this tool generates mutants mechanically so that blind spots do
not depend on what anybody thought of:

  python files : every simple statement replaced by `pass` (stmt-delete), every `if`/`while`/ternary test negated
                 (cond-negate), every `return <expr>` replaced by `return None` (return-none), each element of a
                 list/tuple/dict literal of >= 2 elements dropped in turn is NOT done (too many equivalent mutants)
  shell files  : every command line deleted (replaced by `:` so that the syntax stays valid) (line-delete)

A mutant is *viable* when the file still byte-compiles / passes `bash -n` and the repository's 316 tests still pass
(for the shell templates and local_dataset.py the tests never execute the code, so every syntactically valid mutant is
viable). Every viable mutant is then given to the quick tier of the property's check (scratch worktree + VERIF_REPO;
/repo is never touched). Survivors are written to sensitivity/mutation_sweep_<name>.json and have to be triaged by
hand: equivalent / outside the property / a gap in the check.

usage: tools/mutation_sweep.py <target-name> [--workers N] [--jobs J] [--limit K] [--only-op OP] [--lines A-B]
"""
import ast
import json
import os
import subprocess
import sys
import tempfile
import time
from concurrent.futures import ThreadPoolExecutor

REPO = "/repo"
VERIF = os.path.dirname(os.path.dirname(os.path.abspath(__file__)))
P = "func_adl_xAOD/"

TARGETS = {
    "runner_atlas": {"file": P + "template/atlas/r21/runner.sh", "checks": ["C16"], "tests": False},
    "runner_cms5": {"file": P + "template/cms/r5/runner.sh", "checks": ["C16"], "tests": False},
    "runner_cms7": {"file": P + "template/cms/r7/runner.sh", "checks": ["C16"], "tests": False},
    "local_dataset": {"file": P + "common/local_dataset.py", "checks": ["C17"], "tests": False},
    "local_dataset_atlas": {"file": P + "atlas/xaod/local_dataset.py", "checks": ["C17"], "tests": False},
    "local_dataset_aod": {"file": P + "cms/aod/local_dataset.py", "checks": ["C17"], "tests": False},
    "local_dataset_miniaod": {"file": P + "cms/miniaod/local_dataset.py", "checks": ["C17"], "tests": False},
    "executor": {"file": P + "common/executor.py", "checks": ["C07", "C02"], "tests": True},
    "cpp_types": {"file": P + "common/cpp_types.py", "checks": ["C07"], "tests": True},
    "executor_atlas": {"file": P + "atlas/xaod/executor.py", "checks": ["C07"], "tests": True},
    "executor_aod": {"file": P + "cms/aod/executor.py", "checks": ["C07"], "tests": True},
    "executor_miniaod": {"file": P + "cms/miniaod/executor.py", "checks": ["C07"], "tests": True},
    "evcoll_common": {"file": P + "common/event_collections.py", "checks": ["C06", "C07"], "tests": True},
    "evcoll_atlas": {"file": P + "atlas/xaod/event_collections.py", "checks": ["C06"], "tests": True},
    "evcoll_aod": {"file": P + "cms/aod/event_collections.py", "checks": ["C06"], "tests": True},
    "evcoll_miniaod": {"file": P + "cms/miniaod/event_collections.py", "checks": ["C06"], "tests": True},
    "translator": {"file": P + "common/ast_to_cpp_translator.py", "checks": ["C05", "C06"], "tests": True},
    "statement": {"file": P + "common/statement.py", "checks": ["C05"], "tests": True},
    "generated_code": {"file": P + "common/generated_code.py", "checks": ["C05", "C07"], "tests": True},
    "tmpl_atlas_cxx": {"file": P + "template/atlas/r21/query.cxx", "checks": ["C05", "C06"], "tests": True, "kind": "text"},
    "tmpl_cms5_cc": {"file": P + "template/cms/r5/Analyzer.cc", "checks": ["C05", "C06"], "tests": True, "kind": "text"},
    "tmpl_cms7_cc": {"file": P + "template/cms/r7/Analyzer.cc", "checks": ["C05", "C06"], "tests": True, "kind": "text"},
}


def sh(cmd, **kw):
    return subprocess.run(cmd, shell=True, capture_output=True, text=True, **kw)


# ------------------------------------------------------------------ mutant generation

def py_mutants(src):
    tree = ast.parse(src)
    lines = src.split("\n")
    out = []
    seen = set()

    def span_replace(node, new_first_line_text):
        a, b = node.lineno - 1, node.end_lineno - 1
        indent = lines[a][:len(lines[a]) - len(lines[a].lstrip())]
        new = lines[:a] + [indent + new_first_line_text] + lines[b + 1:]
        return "\n".join(new)

    def is_docstring(node, parent):
        return (isinstance(node, ast.Expr) and isinstance(getattr(node, "value", None), ast.Constant)
                and isinstance(node.value.value, str))

    for parent in ast.walk(tree):
        for field in ("body", "orelse", "finalbody"):
            body = getattr(parent, field, None)
            if not isinstance(body, list):
                continue
            for node in body:
                if not isinstance(node, ast.stmt):
                    continue
                if isinstance(node, (ast.Expr, ast.Assign, ast.AugAssign, ast.AnnAssign, ast.Raise, ast.Assert, ast.Delete)):
                    if is_docstring(node, parent) or isinstance(parent, ast.Module) or isinstance(parent, ast.ClassDef):
                        continue
                    if isinstance(node, ast.AnnAssign) and node.value is None:
                        continue
                    key = ("stmt-delete", node.lineno)
                    if key not in seen:
                        seen.add(key)
                        out.append({"op": "stmt-delete", "line": node.lineno, "end": node.end_lineno,
                                    "text": lines[node.lineno - 1].strip()[:100], "src": span_replace(node, "pass")})
                if isinstance(node, ast.Return) and node.value is not None and not (
                        isinstance(node.value, ast.Constant) and node.value.value is None):
                    out.append({"op": "return-none", "line": node.lineno, "end": node.end_lineno,
                                "text": lines[node.lineno - 1].strip()[:100], "src": span_replace(node, "return None")})
                if isinstance(node, (ast.If, ast.While)):
                    t = node.test
                    seg = ast.get_source_segment(src, t)
                    if seg is not None and t.lineno == t.end_lineno:
                        ln = lines[t.lineno - 1]
                        new_ln = ln[:t.col_offset] + "not (" + seg + ")" + ln[t.end_col_offset:]
                        new = lines[:t.lineno - 1] + [new_ln] + lines[t.lineno:]
                        out.append({"op": "cond-negate", "line": t.lineno, "end": t.lineno, "text": ln.strip()[:100],
                                    "src": "\n".join(new)})
    out.sort(key=lambda m: (m["line"], m["op"]))
    return out


_SH_SKIP = ("#", "fi", "else", "then", "do", "done", "esac", ";;", "{", "}", "elif")


def sh_mutants(src):
    lines = src.split("\n")
    out = []
    for i, ln in enumerate(lines):
        s = ln.strip()
        if not s or s.startswith("#") or s in _SH_SKIP or s.endswith(")") and not s.startswith(("$(", "(")) and " " not in s:
            continue
        if s.startswith(("if ", "while ", "case ", "for ", "elif ", "function ")) or s.endswith(("then", "do", "{")):
            # negate simple if-conditions instead of deleting the line
            if s.startswith("if [") and s.rstrip().endswith("then"):
                new_ln = ln.replace("if [", "if ! [", 1)
                out.append({"op": "cond-negate", "line": i + 1, "end": i + 1, "text": s[:100],
                            "src": "\n".join(lines[:i] + [new_ln] + lines[i + 1:])})
            continue
        if s.endswith("\\") or (i > 0 and lines[i - 1].rstrip().endswith("\\")):
            continue
        indent = ln[:len(ln) - len(ln.lstrip())]
        out.append({"op": "line-delete", "line": i + 1, "end": i + 1, "text": s[:100],
                    "src": "\n".join(lines[:i] + [indent + ":"] + lines[i + 1:])})
    return out


def text_mutants(src):
    """C++ templates: delete one non-trivial line at a time."""
    lines = src.split("\n")
    out = []
    for i, ln in enumerate(lines):
        s = ln.strip()
        if not s or s.startswith(("//", "#include", "{%", "*", "/*")) or s in ("{", "}", "};", "public:", "private:"):
            continue
        out.append({"op": "line-delete", "line": i + 1, "end": i + 1, "text": s[:100],
                    "src": "\n".join(lines[:i] + lines[i + 1:])})
    return out


# ------------------------------------------------------------------ evaluation

def evaluate(wt, tgt, m, jobs):
    path = os.path.join(wt, tgt["file"])
    with open(path) as f:
        orig = f.read()
    rec = {k: m[k] for k in ("op", "line", "end", "text")}
    t0 = time.time()
    try:
        with open(path, "w") as f:
            f.write(m["src"])
        if path.endswith(".py"):
            r = sh(f"/venv/bin/python -c \"import ast,sys; ast.parse(open('{path}').read())\"")
            if r.returncode != 0:
                rec["status"] = "invalid"
                return rec
        elif path.endswith(".sh"):
            if sh(f"bash -n {path}").returncode != 0:
                rec["status"] = "invalid"
                return rec
        if tgt["tests"]:
            r = sh(f"cd {wt} && timeout 900 /venv/bin/python -m pytest -q -x -p no:cacheprovider --timeout=900 2>&1 | tail -1")
            rec["tests"] = r.stdout.strip()[-80:]
            if "316 passed" not in r.stdout:
                rec["status"] = "killed-by-tests"
                return rec
        rec["checks"] = {}
        for prop in tgt["checks"]:
            r = sh(f"cd {VERIF} && VERIF_REPO={wt} VERIF_REPLAYS={wt}/.replays timeout 3000 ./check {prop} --tier quick --no-evidence --jobs {jobs}")
            if r.returncode == 1 and f"VIOLATION property={prop}" in r.stdout:
                inv = sorted({ln.split("invariant=")[1].split()[0] for ln in r.stdout.splitlines()
                              if ln.startswith("violation") and "invariant=" in ln})
                rec["checks"][prop] = "caught:" + ",".join(inv)
                break  # one check is enough
            elif r.returncode == 2:
                rec["checks"][prop] = "harness-error: " + " ".join(
                    ln for ln in r.stdout.splitlines() if ln.startswith("HARNESS"))[:300]
            else:
                rec["checks"][prop] = f"passed rc={r.returncode}"
        rec["status"] = "caught" if any(v.startswith("caught") for v in rec["checks"].values()) else (
            "harness-error" if any(v.startswith("harness") for v in rec["checks"].values()) else "SURVIVED")
        return rec
    finally:
        with open(path, "w") as f:
            f.write(orig)
        rec["wall_s"] = round(time.time() - t0, 1)


def main():
    argv = sys.argv[1:]
    name = argv[0]
    tgt = TARGETS[name]

    def opt(flag, default, conv=str):
        return conv(argv[argv.index(flag) + 1]) if flag in argv else default

    workers = opt("--workers", 4, int)
    jobs = opt("--jobs", 4, int)
    limit = opt("--limit", None, int)
    only_op = opt("--only-op", None)
    lines = opt("--lines", None)
    with open(os.path.join(REPO, tgt["file"])) as f:
        src = f.read()
    kind = tgt.get("kind") or ("py" if tgt["file"].endswith(".py") else "sh")
    muts = {"py": py_mutants, "sh": sh_mutants, "text": text_mutants}[kind](src)
    if only_op:
        muts = [m for m in muts if m["op"] == only_op]
    if lines:
        a, b = map(int, lines.split("-"))
        muts = [m for m in muts if a <= m["line"] <= b]
    if limit:
        step = max(1, len(muts) // limit)
        muts = muts[::step][:limit]
    print(f"{name}: {len(muts)} mutants of {tgt['file']}; checks {tgt['checks']}; workers={workers} jobs={jobs}", flush=True)
    wts = []
    for _ in range(workers):
        wt = tempfile.mkdtemp(prefix="wt-mut-", dir="/tmp")
        assert sh(f"git -C {REPO} worktree add -q --detach {wt} HEAD").returncode == 0
        wts.append(wt)
    results = []
    try:
        import queue
        free = queue.Queue()
        for w in wts:
            free.put(w)

        def work(m):
            wt = free.get()
            try:
                rec = evaluate(wt, tgt, m, jobs)
            except Exception as e:  # noqa
                rec = {"op": m["op"], "line": m["line"], "text": m["text"], "status": f"tool-error {type(e).__name__}: {e}"}
            finally:
                free.put(wt)
            print(json.dumps(rec), flush=True)
            return rec

        with ThreadPoolExecutor(max_workers=workers) as ex:
            results = list(ex.map(work, muts))
    finally:
        for wt in wts:
            sh(f"git -C {REPO} worktree remove --force {wt}")
    head = sh(f"git -C {REPO} rev-parse --short HEAD").stdout.strip()
    summary = {}
    for r in results:
        summary[r["status"].split(" ")[0]] = summary.get(r["status"].split(" ")[0], 0) + 1
    out = os.path.join(VERIF, "sensitivity", f"mutation_sweep_{name}.json")
    os.makedirs(os.path.dirname(out), exist_ok=True)
    with open(out, "w") as f:
        json.dump({"target": tgt["file"], "repo_head": head, "checks": tgt["checks"], "summary": summary, "mutants": results}, f, indent=1)
    print("SUMMARY", json.dumps(summary), "->", out)


if __name__ == "__main__":
    main()
