#!/venv/bin/python
"""Re-run every seeded change against the quick tier of the check(s) named in its meta.json (scratch worktree, VERIF_REPO).
Writes seeded/results.json: {seed: {check: caught|missed|does-not-apply}}.
usage: tools/rerun_seeds.py [--workers N] [--jobs J] [seed-prefix ...]"""
import json
import os
import re
import subprocess
import sys
import tempfile
from concurrent.futures import ThreadPoolExecutor

V = os.path.dirname(os.path.dirname(os.path.abspath(__file__)))
EXPECT_NOT = {"C06-d": "obsolete since fix 41c5286", "C02-d": "breaks only the clause that is not claimed",
              "C02-i": "breaks only the text of the job script (C15), not the claimed clause"}
argv = sys.argv[1:]


def opt(flag, default):
    if flag in argv:
        i = argv.index(flag)
        v = int(argv[i + 1])
        del argv[i:i + 2]
        return v
    return default


workers = opt("--workers", 1)
jobs = opt("--jobs", os.cpu_count() or 4)
res_path = os.path.join(V, "seeded", "results.json")
res = json.load(open(res_path)) if os.path.exists(res_path) else {}


def run_one(seed):
    d = os.path.join(V, "seeded", seed)
    meta = json.load(open(os.path.join(d, "meta.json")))
    checks = sorted(set(re.findall(r"\./check (C\d\d)", meta["caught_by"]))) or [meta["property"]]
    out = {}
    for c in checks:
        rp = tempfile.mkdtemp(prefix="replays-", dir="/tmp")
        env = dict(os.environ, VERIF_REPLAYS=rp)
        r = subprocess.run([os.path.join(V, "tools", "try_seeded_wt.sh"), os.path.join(d, "patch.diff"), c, "--jobs", str(jobs)],
                           capture_output=True, text=True, env=env)
        subprocess.run(["rm", "-rf", rp])
        out[c] = "caught" if "rc=1" in r.stdout and "VIOLATION property=" + c in r.stdout else (
            "does-not-apply" if "patch does not apply" in r.stdout else "missed")
        if out[c] == "caught":
            break
    if seed in EXPECT_NOT:
        out["note"] = EXPECT_NOT[seed]
    print(seed, out, flush=True)
    return seed, out


seeds = [s for s in sorted(os.listdir(os.path.join(V, "seeded")))
         if os.path.isdir(os.path.join(V, "seeded", s)) and (not argv or any(s.startswith(a) for a in argv))]
with ThreadPoolExecutor(max_workers=workers) as ex:
    for seed, out in ex.map(run_one, seeds):
        res[seed] = out
        json.dump(res, open(res_path, "w"), indent=1, sort_keys=True)
bad = [s for s, o in res.items() if s not in EXPECT_NOT and not any(v == "caught" for v in o.values())]
print("seeds not caught by any of their checks:", bad)
