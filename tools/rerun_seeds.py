#!/venv/bin/python
"""Re-run every seeded change against the quick tier of the check(s) named in its meta.json (scratch worktree, VERIF_REPO).
Writes seeded/results.json: {seed: {check: caught|missed|n/a}}. usage: tools/rerun_seeds.py [seed-prefix ...]"""
import json
import os
import re
import subprocess
import sys

V = "/verif"
EXPECT_NOT = {"C06-d": "obsolete since fix 41c5286", "C02-d": "breaks only the clause that is not claimed"}
res_path = os.path.join(V, "seeded", "results.json")
res = json.load(open(res_path)) if os.path.exists(res_path) else {}
for seed in sorted(os.listdir(os.path.join(V, "seeded"))):
    d = os.path.join(V, "seeded", seed)
    if not os.path.isdir(d) or (sys.argv[1:] and not any(seed.startswith(a) for a in sys.argv[1:])):
        continue
    meta = json.load(open(os.path.join(d, "meta.json")))
    checks = sorted(set(re.findall(r"\./check (C\d\d)", meta["caught_by"]))) or [meta["property"]]
    out = {}
    for c in checks:
        r = subprocess.run([os.path.join(V, "tools", "try_seeded_wt.sh"), os.path.join(d, "patch.diff"), c], capture_output=True, text=True)
        out[c] = "caught" if "rc=1" in r.stdout and "VIOLATION property=" + c in r.stdout else ("does-not-apply" if "patch does not apply" in r.stdout else "missed")
    if seed in EXPECT_NOT:
        out["note"] = EXPECT_NOT[seed]
    res[seed] = out
    print(seed, out)
    sys.stdout.flush()
    json.dump(res, open(res_path, "w"), indent=1, sort_keys=True)
bad = [s for s, o in res.items() if s not in EXPECT_NOT and not any(v == "caught" for v in o.values())]
print("seeds not caught by any of their checks:", bad)
