#!/venv/bin/python
"""Determinism self-test: the same VERIF_SEED must give the same event-log fingerprint for every run,
whatever the worker count, the process, or the interpreter's hash seed.

For each property: N items are executed three times in fresh interpreters -
  (A) 16 workers, PYTHONHASHSEED=0   (B) 3 workers, PYTHONHASHSEED=0   (C) 7 workers, PYTHONHASHSEED=4242
and the per-run fingerprints (sha256 of the run's event log) are compared pairwise.

usage: tools/selftest_determinism.py [PROP ...] [--n N] [--seeds 0,1]
"""
import json
import os
import subprocess
import sys

VERIF = os.path.dirname(os.path.dirname(os.path.abspath(__file__)))
N = {"C07": 160, "C02": 24, "C16": 120, "C17": 400, "C05": 40, "C06": 40}
# the plans of C16 / C17 begin with their systematic sweep; START makes the sample straddle sweep and seeded items
START = {"C16": 40, "C17": 100}


def fps(prop, n, seed, jobs, hashseed):
    env = dict(os.environ)
    env["PYTHONHASHSEED"] = str(hashseed)
    r = subprocess.run([os.path.join(VERIF, "check"), prop, "--fingerprints", "--runs", str(n), "--seed", str(seed), "--jobs", str(jobs),
                        "--no-evidence", "--start", str(START.get(prop, 0))], capture_output=True, text=True, env=env, cwd=VERIF, timeout=3600)
    for ln in r.stdout.splitlines():
        if ln.startswith("FINGERPRINTS "):
            return json.loads(ln[13:])
    raise RuntimeError(f"no fingerprints from {prop}: {r.stdout[-500:]} {r.stderr[-500:]}")


def main():
    args = [a for a in sys.argv[1:] if not a.startswith("--")]
    seeds = [0, 1]
    nover = None
    for i, a in enumerate(sys.argv):
        if a == "--seeds":
            seeds = [int(x) for x in sys.argv[i + 1].split(",")]
        if a == "--n":
            nover = int(sys.argv[i + 1])
    args = [a for a in args if not a.replace(",", "").isdigit()]
    props = args or sorted(N)
    bad = 0
    report = []
    for p in props:
        for seed in seeds:
            n = nover or N[p]
            a = fps(p, n, seed, 16, 0)
            b = fps(p, n, seed, 3, 0)
            c = fps(p, n, seed, 7, 4242)
            diff = [k for k in a if a[k] != b.get(k) or a[k] != c.get(k)]
            ok = not diff and len(a) == len(b) == len(c) == n
            report.append({"property": p, "seed": seed, "runs": len(a), "executions": 3, "diverging_runs": diff[:10], "ok": ok})
            print(json.dumps(report[-1]))
            sys.stdout.flush()
            bad += 0 if ok else 1
    os.makedirs(os.path.join(VERIF, "sensitivity"), exist_ok=True)
    with open(os.path.join(VERIF, "sensitivity", "determinism.json"), "w") as f:
        json.dump(report, f, indent=1)
    print("determinism: " + ("OK" if not bad else f"{bad} FAILED"))
    return 1 if bad else 0


if __name__ == "__main__":
    sys.exit(main())
