#!/bin/bash
# tools/try_seeded.sh <patch.diff> <PROP> [extra check args]: apply a seeded change to /repo, run the quick check, undo.
set -u
patch=$1; prop=$2; shift 2
[ -z "$(git -C /repo status --porcelain)" ] || { echo "/repo not clean"; exit 3; }
git -C /repo apply "$patch" || { echo "patch does not apply"; exit 3; }
cd /verif && ./check "$prop" --tier quick --no-evidence "$@" > /tmp/try_seeded.out 2>&1
rc=$?
git -C /repo checkout -- . 
[ -z "$(git -C /repo status --porcelain)" ] || echo "WARNING: /repo not restored"
grep -E "^violation|^VIOLATION|^KNOWN|^HARNESS|^done" /tmp/try_seeded.out | cut -c1-300
echo "rc=$rc"
