#!/venv/bin/python
"""Sensitivity self-test: small source mutations of /repo that break a property while the
test-suite still passes; each must be caught by the property's quick check.

Each mutation is applied in a private scratch worktree of /repo's HEAD (outside /repo and /verif), the
check is pointed at it with VERIF_REPO, and the worktree is removed afterwards - /repo itself is never
touched, so this can run next to other checks.

usage: tools/sensitivity.py [ID-prefix ...] [--tier quick] [--with-tests]
"""
import json
import os
import subprocess
import sys
import time

REPO = "/repo"
VERIF = os.path.dirname(os.path.dirname(os.path.abspath(__file__)))
P = "func_adl_xAOD/"

MUTANTS = [
    # ---------------- C07
    ("C07-no-reset-on-failure", "C07", P + "common/executor.py",
     "        except BaseException:\n            # A failed translation must not leave its declarations behind for the next one.\n            self.reset()\n            raise",
     "        except BaseException:\n            raise"),
    ("C07-no-reset-after-write-failure", "C07", P + "common/executor.py",
     "        try:\n            return self._write_cpp_files(ast, output_path)\n        finally:\n            # Reset our object for the next call (e.g. reset global state), also\n            # when the translation failed.\n            self.reset()",
     "        r = self._write_cpp_files(ast, output_path)\n        self.reset()\n        return r"),
    ("C07-reset-forgets-job-blocks", "C07", P + "common/executor.py",
     "        self._job_option_blocks = []\n        self._inject_blocks = []\n        self._extended_md = {}\n",
     "        self._inject_blocks = []\n        self._extended_md = {}\n"),
    ("C07-reset-forgets-registry", "C07", P + "common/executor.py",
     "        ctyp.g_method_type_dict = {}\n        ctyp.g_toplevel_ns = {}\n\n    def define_default_types",
     "        ctyp.g_toplevel_ns = {}\n\n    def define_default_types"),
    ("C07-reset-forgets-enums", "C07", P + "common/executor.py",
     "        ctyp.g_method_type_dict = {}\n        ctyp.g_toplevel_ns = {}\n\n    def define_default_types",
     "        ctyp.g_method_type_dict = {}\n\n    def define_default_types"),
    ("C07-shared-default-md", "C07", P + "common/executor.py",
     "        self._extended_md = dict(extended_md)", "        self._extended_md = extended_md"),
    ("C07-found-md-kept", "C07", P + "common/executor.py",
     "        self._found_extended_md = defaultdict(list)\n        try:", "        try:"),
    ("C07-reset-keeps-registered-extended-md-types", "C07", P + "common/executor.py",
     "        self._inject_blocks = []\n        self._extended_md = {}\n", "        self._inject_blocks = []\n"),
    ("C07-job-blocks-appended-again", "C07", P + "common/executor.py",
     "        self._job_option_blocks = [\n            m for m in cpp_functions if isinstance(m, JobScriptSpecification)\n        ]\n",
     "        self._job_option_blocks.extend(m for m in cpp_functions if isinstance(m, JobScriptSpecification))\n"),
    ("C07-defaults-at-construction-again", "C07", P + "cms/aod/executor.py",
     "        super().__init__(file_names, runner_name, template_dir_name, method_names)\n",
     "        super().__init__(file_names, runner_name, template_dir_name, method_names)\n        define_default_cms_types()\n"),
    ("C07-ast-rewritten-in-place-again", "C07", P + "common/executor.py",
     "        a = copy.deepcopy(a, memo)\n", "        pass\n"),
    # ---------------- C02 (scoped clause)
    ("C02-swallow-oserror", "C02", P + "common/executor.py",
     "        j2_env.get_template(template_file).stream(info).dump(\n            str(final_dir / template_file)\n        )",
     "        try:\n            j2_env.get_template(template_file).stream(info).dump(\n                str(final_dir / template_file)\n            )\n        except OSError:\n            pass"),
    ("C02-skip-chmod", "C02", P + "common/executor.py",
     "        (output_path / self._runner_name).chmod(0o755)\n", "        pass\n"),
    ("C02-chmod-user-only", "C02", P + "common/executor.py",
     "        (output_path / self._runner_name).chmod(0o755)\n", "        (output_path / self._runner_name).chmod(0o744)\n"),
    ("C02-skip-existing-file", "C02", P + "common/executor.py",
     "        \"Copy a file to a final directory\"\n",
     "        \"Copy a file to a final directory\"\n        if (final_dir / template_file).exists() and template_file.endswith(('.cxx', '.cc')):\n            return\n"),
    # ---------------- C16
    ("C16-atlas-no-set-e", "C16", P + "template/atlas/r21/runner.sh", "\nset -e\n", "\n"),
    ("C16-cms5-no-set-e", "C16", P + "template/cms/r5/runner.sh", "\nset -e\n", "\n"),
    ("C16-atlas-no-rm-bogus", "C16", P + "template/atlas/r21/runner.sh", "     rm -rf bogus\n", "     true\n"),
    ("C16-atlas-d-appends", "C16", P + "template/atlas/r21/runner.sh",
     "      echo $input_file > filelist.txt", "      echo $input_file >> filelist.txt"),
    ("C16-cms7-d-appends", "C16", P + "template/cms/r7/runner.sh",
     "        echo $input_file > filelist.txt", "        echo $input_file >> filelist.txt"),
    ("C16-atlas-swap-c-r", "C16", P + "template/atlas/r21/runner.sh",
     "    c)\n        run=0\n        ;;\n    r)\n        compile=0\n        ;;", "    c)\n        compile=0\n        ;;\n    r)\n        run=0\n        ;;"),
    ("C16-cms5-exit10-to-0", "C16", P + "template/cms/r5/runner.sh", "        exit 10\n", "        exit 0\n"),
    ("C16-cms7-cmsrun-or-true", "C16", P + "template/cms/r7/runner.sh",
     "    cmsRun python/ConfFile_cfg.py\n", "    cmsRun python/ConfFile_cfg.py || true\n"),
    ("C16-atlas-ignore-o", "C16", P + "template/atlas/r21/runner.sh",
     "      destination=$output_dir\n", "      destination=/results\n"),
    ("C16-atlas-keep-partial", "C16", P + "template/atlas/r21/runner.sh",
     " || { rm -f $destination; exit 1; }\n", "\n"),
    ("C16-cms5-keep-partial", "C16", P + "template/cms/r5/runner.sh",
     "        eval $cvt || { rm -f $destination; exit 1; }\n", "        eval $cvt\n"),
    ("C16-atlas-stray-args-ok", "C16", P + "template/atlas/r21/runner.sh",
     "  echo \"Extra arguments on the command line $@\"\n  exit 1\n", "  echo \"Extra arguments on the command line $@\"\n"),
    ("C16-cms5-stale-output-on-job-failure", "C16", P + "template/cms/r5/runner.sh",
     "    cmsRun analyzer_cfg.py\n", "    cmsRun analyzer_cfg.py || echo 'job failed, converting what is there'\n"),
    ("C16-atlas-make-ignored", "C16", P + "template/atlas/r21/runner.sh", "   make\nelse", "   make || true\nelse"),
    # ---------------- C05
    ("C05-no-clear-after-fill", "C05", P + "common/ast_to_cpp_translator.py",
     "            if rep_is_collection(e[0]):\n                self._gc.add_statement(statement.container_clear(e[1][1]))",
     "            if rep_is_collection(e[0]) and False:\n                self._gc.add_statement(statement.container_clear(e[1][1]))"),
    ("C05-clear-only-first-vector", "C05", P + "common/ast_to_cpp_translator.py",
     "            if rep_is_collection(e[0]):\n                self._gc.add_statement(statement.container_clear(e[1][1]))",
     "            if rep_is_collection(e[0]):\n                self._gc.add_statement(statement.container_clear(e[1][1]))\n                break"),
    ("C05-first-flag-static", "C05", P + "common/statement.py",
     '            e.add_line(f"{v.cpp_type()} {v.as_cpp()}{init_value};")',
     '            e.add_line(f"{\'static \' if v.as_cpp().startswith(\'is_first\') else \'\'}{v.cpp_type()} {v.as_cpp()}{init_value};")'),
    ("C05-accumulator-class-member", "C05", P + "common/ast_to_cpp_translator.py",
     "        accumulator_scope.declare_variable(accumulator)\n",
     "        self._gc.declare_class_variable(accumulator)\n"),
    ("C05-2d-storage-class-member", "C05", P + "common/ast_to_cpp_translator.py",
     "                    scope.declare_variable(storage)\n",
     "                    self._gc.declare_class_variable(storage)\n"),
    ("C05-accumulator-inside-outer-loop-again", "C05", P + "common/ast_to_cpp_translator.py",
     "            accumulator_scope = seq.outermost_iterator_value().scope()[-1]", "            accumulator_scope = seq.iterator_value().scope()[-1]"),
    ("C05-first-flag-inside-outer-loop-again", "C05", P + "common/ast_to_cpp_translator.py",
     "        loop_scope = seq.outermost_iterator_value().scope()", "        loop_scope = seq.iterator_value().scope()"),
    ("C05-atlas-swallow-event-exception", "C05", P + "template/atlas/r21/query.cxx",
     "  {% for l in query_code %}\n  {{l}}\n  {% endfor %}\n",
     "  try {\n  {% for l in query_code %}\n  {{l}}\n  {% endfor %}\n  } catch (const std::exception &e) { return StatusCode::SUCCESS; }\n"),
    # ---------------- C06
    ("C06-atlas-no-ana-check", "C06", P + "atlas/xaod/event_collections.py",
     "'ANA_CHECK (evtStore()->retrieve(result, collection_name));'", "'evtStore()->retrieve(result, collection_name).ignore();'"),
    ("C06-aod-constant-label", "C06", P + "cms/aod/event_collections.py",
     "'iEvent.getByLabel(collection_name, result);'", "'iEvent.getByLabel(\"muons\", result);'"),
    ("C06-mini-shared-token-again", "C06", P + "cms/miniaod/event_collections.py",
     "        t_name = unique_name(\"token\")\n", "        t_name = \"token_shared\"\n"),
    ("C06-long-bank-truncated", "C06", P + "common/cpp_ast.py",
     "        rep = visitor.get_rep(dest)\n        repl_list += [(arg, rep.as_cpp())]",
     "        rep = visitor.get_rep(dest)\n        repl_list += [(arg, rep.as_cpp() if len(rep.as_cpp()) < 24 else rep.as_cpp()[:23] + '\"')]"),
    ("C06-atlas-muons-as-electrons", "C06", P + "atlas/xaod/event_collections.py",
     "atlas_xaod_event_collection_collection('xAOD::MuonContainer', 'xAOD::Muon')", "atlas_xaod_event_collection_collection('xAOD::ElectronContainer', 'xAOD::Electron')"),
    ("C06-mini-handle-check-skipped", "C06", P + "cms/miniaod/event_collections.py",
     "            f\"iEvent.getByToken({t_name}, result);\",", "            f\"if (!iEvent.getByToken({t_name}, result)) {{ static const typename std::remove_reference<decltype(*result)>::type empty; result.set(std::shared_ptr<const typename std::remove_reference<decltype(*result)>::type>(&empty, [](const void*){{}})); }}\","),
    # ---------------- C17
    ("C17-swallow-docker-exception", "C17", P + "common/local_dataset.py",
     "                    self._docker_image,\n                )\n                raise e\n",
     "                    self._docker_image,\n                )\n"),
    ("C17-ignore-md-image", "C17", P + "common/local_dataset.py",
     "            if len(md) > 0:\n                docker_image = md[-1].image\n", "            if len(md) > 1:\n                docker_image = md[-1].image\n"),
    ("C17-full-host-paths", "C17", P + "common/local_dataset.py",
     'flist_out.write(f"/data/{datafile}\\n")', 'flist_out.write(f"{u}\\n")'),
    ("C17-mkdtemp-no-cleanup", "C17", P + "common/local_dataset.py",
     "        with tempfile.TemporaryDirectory() as local_run_dir_p:\n\n            # Setup the local directory and make sure it is writeable",
     "        for local_run_dir_p in [tempfile.mkdtemp()]:\n\n            # Setup the local directory and make sure it is writeable"),
    ("C17-data-rw", "C17", P + "common/local_dataset.py",
     '(datafile_dir, "/data/", "ro"),', '(datafile_dir, "/data/", "rw"),'),
    ("C17-no-same-dir-check", "C17", P + "common/local_dataset.py",
     "                        if ds_path != datafile_dir:\n", "                        if False:\n"),
    ("C17-return-temp-path", "C17", P + "common/local_dataset.py",
     "    shutil.copy(current_path, new_path)\n    return new_path", "    shutil.copy(current_path, new_path)\n    return current_path"),
    ("C17-sorted-files", "C17", P + "common/local_dataset.py",
     "                for u in self.files:\n", "                for u in sorted(self.files):\n"),
    ("C17-tag-dropped-with-md", "C17", P + "common/local_dataset.py",
     "                    docker_image,\n                    [f\"/scripts/{f_spec.main_script}\"],",
     "                    docker_image if len(md) == 0 else docker_image.split(':')[0],\n                    [f\"/scripts/{f_spec.main_script}\"],"),
    ("C17-no-cache-volume", "C17", P + "atlas/xaod/local_dataset.py",
     "        return [docker_volume_info(docker_name='atlas_xaod_calibration_cache', mount_point='/xaod_calibration_cache')]", "        return []"),
    ("C17-missing-file-late", "C17", P + "common/local_dataset.py",
     "        for f in self.files:\n            if not f.exists():\n", "        for f in self.files[:1]:\n            if not f.exists():\n"),
    ("C17-strict-decode-again", "C17", P + "common/local_dataset.py",
     "                        output += f\"{stream_content.decode(errors='replace')}\"", "                        output += f\"{stream_content.decode()}\""),
    ("C17-run-dir-not-opened-to-container-user", "C17", P + "common/local_dataset.py",
     "            local_run_dir.chmod(0o777)\n", "            pass\n"),
    ("C17-assert-tempdir-again", "C17", P + "common/local_dataset.py",
     "            else Path(tempfile.gettempdir())", "            else Path(tempfile.tempdir)"),
]


def sh(cmd, **kw):
    return subprocess.run(cmd, shell=True, capture_output=True, text=True, **kw)


def main():
    args = [a for a in sys.argv[1:] if not a.startswith("--")]
    with_tests = "--with-tests" in sys.argv
    import tempfile
    wt = tempfile.mkdtemp(prefix="wt-sens-", dir="/tmp")
    assert sh(f"git -C {REPO} worktree add -q --detach {wt} HEAD").returncode == 0
    results = []
    for mid, prop, path, old, new in MUTANTS:
        if args and not any(mid.startswith(a) for a in args):
            continue
        full = os.path.join(wt, path)
        with open(full) as f:
            src = f.read()
        if src.count(old) != 1:
            results.append({"id": mid, "status": "STALE (pattern occurs %d times)" % src.count(old)})
            print(results[-1])
            continue
        t0 = time.time()
        try:
            with open(full, "w") as f:
                f.write(src.replace(old, new))
            tests = None
            if with_tests:
                r = sh(f"cd {wt} && /venv/bin/python -m pytest -q -p no:cacheprovider --timeout=900 -x 2>&1 | tail -1")
                tests = r.stdout.strip()
            r = sh(f"cd {VERIF} && VERIF_REPO={wt} ./check {prop} --tier quick --no-evidence", timeout=3600)
            caught = r.returncode == 1 and f"VIOLATION property={prop}" in r.stdout
            inv = sorted({ln.split("invariant=")[1].split()[0] for ln in r.stdout.splitlines() if "invariant=" in ln and ln.startswith("violation")})
            results.append({"id": mid, "property": prop, "status": "caught" if caught else f"MISSED rc={r.returncode}",
                            "invariants": inv, "tests": tests, "wall_s": round(time.time() - t0, 1),
                            "tail": r.stdout[-300:] if not caught else ""})
        finally:
            sh(f"git -C {wt} checkout -- {path}")
        print(json.dumps(results[-1]))
        sys.stdout.flush()
    sh(f"git -C {REPO} worktree remove --force {wt}")
    os.makedirs(os.path.join(VERIF, "sensitivity"), exist_ok=True)
    out = os.path.join(VERIF, "sensitivity", "results.json")
    prev = {}
    if os.path.exists(out):
        prev = {r["id"]: r for r in json.load(open(out))}
    for r in results:
        prev[r["id"]] = r
    json.dump(sorted(prev.values(), key=lambda r: r["id"]), open(out, "w"), indent=1)
    missed = [r for r in results if r["status"] != "caught"]
    print(f"{len(results) - len(missed)}/{len(results)} caught")
    return 1 if missed else 0


if __name__ == "__main__":
    sys.exit(main())
