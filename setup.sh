#!/bin/bash
# Offline setup: nothing is installed; byte-compile the simulator and run the harness self-checks
# that need no /repo code. Everything the checks need is rebuilt from /repo at check time.
set -e
cd "$(dirname "$0")"
/venv/bin/python -m compileall -q sim >/dev/null
/venv/bin/python -c "import hypothesis, jinja2, func_adl, qastle" 
/venv/bin/python -m sim.selfcheck
echo "setup ok"
