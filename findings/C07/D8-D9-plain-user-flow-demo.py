import sys, logging, tempfile, traceback
sys.path.insert(0,'/verif'); sys.path.insert(0,'/verif/sim/stand_in')
logging.disable(logging.CRITICAL)
from pathlib import Path
from func_adl import EventDataset
from func_adl_xAOD.atlas.xaod.executor import atlas_xaod_executor
class ds(EventDataset):
    async def execute_result_async(self, a, title):
        exe = atlas_xaod_executor()
        d = Path(tempfile.mkdtemp())
        r = exe.write_cpp_files(exe.apply_ast_transformations(a), d)
        return open(d/'package_CMakeLists.txt').read().split('\n')[8]
FN = {"metadata_type": "add_cpp_function", "name": "my_scale", "include_files": [], "arguments": ["value", "factor"], "code": ["double result = value * factor;"], "return_type": "double"}
print("--- scenario 1: metadata in the common base")
base = ds().MetaData(FN).SelectMany('lambda e: e.Jets("AntiKt4")')
try:
    print('first :', base.Select('lambda j: my_scale(j.pt(), 2.0)').value())
    print('second:', base.Select('lambda j: my_scale(j.eta(), 3.0)').value())
except Exception as e:
    print('second FAILED:', type(e).__name__, e)
print("--- scenario 2: collection re-declared downstream of the common base")
COLL = {"metadata_type": "add_atlas_event_collection_info", "name": "Jets", "include_files": ["my/FatJets.h"], "container_type": "my::FatJetContainer", "element_type": "my::FatJet", "contains_collection": True}
base = ds().SelectMany('lambda e: e.Jets("AntiKt4")')
print('first (re-declares Jets):', base.MetaData(COLL).Select('lambda j: j.pt()').value())
print('second (plain)          :', base.Select('lambda j: j.pt()').value())
print('fresh plain             :', ds().SelectMany('lambda e: e.Jets("AntiKt4")').Select('lambda j: j.pt()').value())
